#!/venv/bin/python
"""
Single entry point for every check.

    check.py <ID> [--tier quick|thorough] [--replay FILE] [--only SUB[,SUB]]

Environment: VERIF_SEED (default 1), VERIF_TIER, VERIF_REPO (tree under test, default /repo),
VERIF_SHARDS (processes), VERIF_SCALE (multiplier on example counts).
"""
import argparse
import os
import sys

HERE = os.path.dirname(os.path.abspath(__file__))


def main():
    parser = argparse.ArgumentParser()
    parser.add_argument("property")
    parser.add_argument("--tier", default=os.environ.get("VERIF_TIER") or "quick",
                        choices=["quick", "thorough"])
    parser.add_argument("--replay")
    parser.add_argument("--only")
    options = parser.parse_args()

    # Determinism: a fixed hash seed unless the caller chose one.
    if os.environ.get("PYTHONHASHSEED") is None:
        os.environ["PYTHONHASHSEED"] = "0"
        os.execv(sys.executable, [sys.executable] + sys.argv)

    sys.path.insert(0, HERE)
    deps = os.path.join(HERE, ".deps")
    if os.path.isdir(deps):
        sys.path.append(deps)
    from vf import runner
    only = options.only.split(",") if options.only else None
    return runner.main(options.property.upper(), options.tier, replay=options.replay, only=only)


if __name__ == "__main__":
    try:
        code = main()
    except SystemExit:
        raise
    except BaseException:  # noqa: BLE001 - anything unexpected is a harness error, never VIOLATION
        import traceback
        traceback.print_exc()
        print("HARNESS-ERROR")
        code = 2
    sys.exit(code)
