"""
Shared plumbing: locate the emsarray tree under test, import it, exception types.

The tree under test is ``$VERIF_REPO`` (default ``/repo``).  Its ``src`` directory is put at the
front of ``sys.path`` so that every import executes the working tree, whatever is installed in
site-packages.  "Rebuilding" a pure-Python package is "importing it in a fresh process".
"""
import os
import sys
import types
import warnings

VERIF_DIR = os.path.dirname(os.path.dirname(os.path.abspath(__file__)))
REPO = os.path.abspath(os.environ.get("VERIF_REPO", "/repo"))
REPO_SRC = os.path.join(REPO, "src")
EMS_DIR = os.path.join(REPO_SRC, "emsarray")

# The guard for repository-side hooks.  No hooks exist (every observation point is public API);
# the variable is still exported so that a future hook would be switched on in every check.
os.environ.setdefault("EMSARRAY_VERIF", "1")
os.environ.setdefault("MPLBACKEND", "Agg")


class Violation(Exception):
    """The property under test does not hold for this case."""

    def __init__(self, clause, detail, info=None):
        super().__init__(f"{clause}: {detail}")
        self.clause = clause
        self.detail = detail
        self.info = info or {}


class HarnessError(Exception):
    """The harness itself is broken (generator / oracle bug).  Never reported as VIOLATION."""


def _stub_cfunits():
    # cfunits needs libudunits2, which is not installed here.  emsarray.transect imports it at
    # module level and only uses it to format axis labels, which no check observes.
    if "cfunits" in sys.modules:
        return
    try:
        import cfunits  # noqa: F401
        return
    except Exception:
        pass
    mod = types.ModuleType("cfunits")

    class Units:  # pragma: no cover - trivial
        def __init__(self, units=None, *a, **k):
            self.units = units

        def formatted(self, *a, **k):
            return str(self.units)

    mod.Units = Units
    sys.modules["cfunits"] = mod


_imported = False


def _single_threaded_dask():
    # emsarray opens clipped datasets with open_mfdataset(lock=False); loading such a dataset
    # with dask's threaded scheduler calls into HDF5 from several threads without a lock, which
    # intermittently crashes or hangs the interpreter.  That is a scheduling hazard outside every
    # listed property, so the harness evaluates lazily loaded data on one thread.
    try:
        import dask
        dask.config.set(scheduler="synchronous")
    except Exception:
        pass


def import_emsarray():
    """Import emsarray from the tree under test and return the module."""
    global _imported
    if REPO_SRC not in sys.path[:1]:
        sys.path.insert(0, REPO_SRC)
    _stub_cfunits()
    with warnings.catch_warnings():
        warnings.simplefilter("ignore")
        import emsarray
        import emsarray.conventions  # noqa: F401
    _single_threaded_dask()
    here = os.path.realpath(os.path.dirname(emsarray.__file__))
    if here != os.path.realpath(EMS_DIR):
        raise HarnessError(
            f"emsarray imported from {here}, expected the tree under test {EMS_DIR}")
    _imported = True
    return emsarray


def is_emsarray_frame(filename):
    try:
        return os.path.realpath(filename).startswith(os.path.realpath(EMS_DIR) + os.sep)
    except Exception:
        return False


def exception_escaped_emsarray(exc):
    """True when the traceback of ``exc`` passes through the emsarray package under test."""
    seen = set()
    while exc is not None and id(exc) not in seen:
        seen.add(id(exc))
        tb = exc.__traceback__
        while tb is not None:
            if is_emsarray_frame(tb.tb_frame.f_code.co_filename):
                return True
            tb = tb.tb_next
        exc = exc.__cause__ or exc.__context__
    return False


def innermost_emsarray_frame(exc):
    tb = exc.__traceback__
    found = None
    while tb is not None:
        fn = tb.tb_frame.f_code.co_filename
        if is_emsarray_frame(fn):
            found = (os.path.relpath(os.path.realpath(fn), os.path.realpath(REPO_SRC)),
                     tb.tb_frame.f_code.co_name, tb.tb_lineno)
        tb = tb.tb_next
    return found
