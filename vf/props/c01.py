"""
C01 - native and linear indexes form a bijection on every grid.

Oracle: R-index (vf.refmodel): divmod-based row-major decomposition over the shapes the *spec*
defines.  Inside every generated dataset the index space is swept completely: every linear index
in [-3, N+3) for every grid kind and every native index in the box [-1 .. n_d] per dimension.
"""
import itertools

from hypothesis import strategies as st

from vf import refmodel, specs
from vf import strategies as S
from vf.props._util import open_case
from vf.runner import Enum, Sub

PROPERTY = "C01"
RULE = (
    "Datasets of every convention (CF 1-D, CF 2-D, SHOC simple, Arakawa C, SHOC standard, UGRID "
    "with/without edge dimension) are drawn from vf.strategies.dataset_spec; inside each the "
    "whole index space plus a margin is swept. A case is non-trivial when its face grid is not "
    "square or it has >= 2 grid kinds of different shape; distinct = distinct spec hash. The "
    "enumeration covers every structured shape 1..5 x 1..5 per convention and strip meshes of "
    "1..12 faces with and without an edge dimension."
)
ASSUMPTIONS = [
    "datasets are valid instances of their convention (generator is constructive)",
    "out-of-range means: linear index outside [0, N) or any native component outside [0, n_d)",
]


def sweep(spec, ctx):
    ds, conv = open_case(spec)
    shapes = specs.grid_shapes(spec)
    enums = refmodel.kind_enums(conv)

    ctx.at("C01.grid_kinds")
    ctx.check(set(enums) == set(shapes), "C01.grid_kinds",
              lambda: f"grid_kinds {sorted(enums)} != model {sorted(shapes)}")
    sizes = conv.grid_size
    ctx.check(conv.default_grid_kind == enums["face"], "C01.default_kind",
              f"default grid kind is {conv.default_grid_kind!r}, not the face grid")

    for kind, shape in shapes.items():
        ke = enums[kind]
        n = refmodel.grid_size(spec, kind)
        ctx.at("C01.grid_size")
        ctx.check(sizes[ke] == n, "C01.grid_size",
                  lambda: f"grid_size[{kind}] = {sizes[ke]!r}, model says {n}")

        seen = set()
        for lin in range(-3, n + 3):
            if 0 <= lin < n:
                ctx.at("C01.wind")
                native = conv.wind_index(lin, grid_kind=ke)
                want = refmodel.native_index(spec, kind, lin, ke)
                ctx.check(isinstance(native, tuple) and tuple(native) == tuple(want), "C01.wind",
                          lambda: f"wind_index({lin}, {kind}) = {native!r}, expected {want!r}")
                ctx.at("C01.roundtrip_linear")
                back = conv.ravel_index(native)
                ctx.check(back == lin and not isinstance(back, bool), "C01.roundtrip_linear",
                          lambda: f"ravel_index(wind_index({lin}, {kind})) = {back!r}")
                seen.add(tuple(native))
                if kind == "face":
                    ctx.at("C01.default_kind")
                    default = conv.wind_index(lin)
                    ctx.check(tuple(default) == tuple(want), "C01.default_kind",
                              lambda: f"wind_index({lin}) without grid_kind = {default!r}")
            else:
                ctx.at("C01.reject_linear")
                ctx.raises("C01.reject_linear",
                           lambda: conv.wind_index(lin, grid_kind=ke),
                           f"wind_index({lin}, {kind}) with grid size {n}")
        ctx.check(len(seen) == n, "C01.distinct",
                  lambda: f"{n} linear indexes of {kind} map to only {len(seen)} native indexes")

        for comps in itertools.product(*(range(-1, s + 1) for s in shape)):
            in_range = all(0 <= c < s for c, s in zip(comps, shape))
            native = _pack(spec, ke, comps)
            if in_range:
                ctx.at("C01.ravel")
                lin = conv.ravel_index(native)
                want = refmodel.linear_of(spec, kind, comps)
                ctx.check(lin == want, "C01.ravel",
                          lambda: f"ravel_index({native!r}) = {lin!r}, expected {want}")
                ctx.at("C01.roundtrip_native")
                back = conv.wind_index(lin, grid_kind=ke)
                ctx.check(tuple(back) == tuple(native), "C01.roundtrip_native",
                          lambda: f"wind_index(ravel_index({native!r})) = {back!r}")
            else:
                ctx.at("C01.reject_native")
                ctx.raises("C01.reject_native", lambda: conv.ravel_index(native),
                           f"ravel_index({native!r}) on {kind} grid of shape {shape}")
    return shapes


def _pack(spec, kind_enum, comps):
    if spec["conv"] in ("cf1d", "cf2d", "shoc_simple"):
        return tuple(comps)
    return (kind_enum,) + tuple(comps)


def check_spec(spec, ctx):
    shapes = sweep(spec, ctx)
    ctx.label("conv:" + spec["conv"])
    face = shapes["face"]
    non_square = len(face) == 2 and face[0] != face[1]
    multi = len(set(shapes.values())) >= 2
    if spec["conv"] == "ugrid":
        ctx.label("ugrid:edge_dim" if "edge" in shapes else "ugrid:no_edge_dim")
    if len(face) == 2 and 1 in face:
        ctx.label("shape:1xN or Nx1")
    ctx.nontrivial(non_square or multi)


def strategy(tier):
    return S.dataset_spec(with_vars=False, modes=("raw",))


# ---- exhaustive shapes

def enum_cases(tier):
    top = 5 if tier == "thorough" else 4
    for conv in ("cf1d", "cf2d", "shoc_simple", "arakawa", "shoc_standard"):
        for nj in range(1, top + 1):
            for ni in range(1, top + 1):
                yield {"conv": conv, "nj": nj, "ni": ni}
    for nf in range(1, (12 if tier == "thorough" else 6) + 1):
        for supply in ([], ["edge_node"]):
            yield {"conv": "ugrid", "nf": nf, "supply": supply}


def regular_spec(case):
    conv = case["conv"]
    if conv == "ugrid":
        nf = case["nf"]
        nodes = [[float(i), 0.0] for i in range(nf + 1)] + [[float(i), 1.0] for i in range(nf + 1)]
        faces = [[i, i + 1, nf + 1 + i + 1, nf + 1 + i] for i in range(nf)]
        enc = {
            "names": S.UGRID_NAMESETS[0], "dims": S.UGRID_DIMSETS[0], "start_index": None,
            "fill": "int", "dtype": "i4", "supply": case["supply"], "transposed": [],
            "edge_dim_attr": False, "face_dim_attr": False, "coords_as": "var",
            "face_coords": False, "edge_coords": False,
        }
        return {"conv": conv, "geom": {"nodes": nodes, "faces": faces,
                                       "edges": specs.mesh_edges(faces), "enc": enc},
                "extra": {}, "vars": [], "mode": "raw"}
    nj, ni = case["nj"], case["ni"]
    if conv == "cf1d":
        geom = {"lat": [float(j) for j in range(nj)], "lon": [float(i) for i in range(ni)],
                "lat_bounds": [[j - 0.5, j + 0.5] for j in range(nj)],
                "lon_bounds": [[i - 0.5, i + 0.5] for i in range(ni)],
                "names": S.CF1D_NAMES[1], "coords_as": "coord", "bounds_as": "var",
                "detect": "units"}
    else:
        nodes = [[[float(i), float(j)] for i in range(ni + 1)] for j in range(nj + 1)]
        if conv in ("cf2d", "shoc_simple"):
            geom = {"nodes": nodes, "holes": [[False] * ni for _ in range(nj)], "bounds": True,
                    "names": (S.SHOC_SIMPLE_NAMES if conv == "shoc_simple" else S.CF2D_NAMES)[0],
                    "coords_as": "coord", "bounds_as": "var", "detect": "units"}
        else:
            geom = {"nodes": nodes, "coords_as": "coord"}
    return {"conv": conv, "geom": geom, "extra": {}, "vars": [], "mode": "raw"}


def check_enum(case, ctx):
    spec = regular_spec(case)
    check_spec(spec, ctx)


SUBS = [Sub("datasets", strategy, check_spec, quick=150, thorough=1000)]
ENUMS = [Enum("all_shapes", enum_cases, check_enum, exhaustive_in=("quick", "thorough"))]
