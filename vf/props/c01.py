"""
C01 - native and linear indexes form a bijection on every grid.

Oracle: R-index (vf.refmodel): divmod-based row-major decomposition over the shapes the *spec*
defines.  Inside every generated dataset the index space is swept completely: every linear index
in [-3, N+3) for every grid kind and every native index in the box [-1 .. n_d] per dimension.
"""
import itertools

from hypothesis import strategies as st

from vf import refmodel, specs
from vf import strategies as S
from vf.props._util import open_case
from vf.runner import Enum, Sub

PROPERTY = "C01"
RULE = (
    "Datasets of every convention (CF 1-D, CF 2-D, SHOC simple, Arakawa C, SHOC standard, UGRID "
    "with/without edge dimension) are drawn from vf.strategies.dataset_spec; inside each the "
    "whole index space plus a margin is swept. A case is non-trivial when its face grid is not "
    "square or it has >= 2 grid kinds of different shape; distinct = distinct spec hash. The "
    "enumeration covers every structured shape 1..5 x 1..5 per convention and strip meshes of "
    "1..12 faces with and without an edge dimension. Sub-check large_grids: CF 1-D grids of up "
    "to 300000 x 300000 cells (only the two coordinate axes exist), probed at landmarks around "
    "2**31, 2**32, the ends and random positions; non-trivial there = at least 2**31 cells."
)
ASSUMPTIONS = [
    "datasets are valid instances of their convention (generator is constructive)",
    "out-of-range means: linear index outside [0, N) or any native component outside [0, n_d)",
]


def sweep(spec, ctx):
    ds, conv = open_case(spec)
    shapes = specs.grid_shapes(spec)
    enums = refmodel.kind_enums(conv)

    ctx.at("C01.grid_kinds")
    ctx.check(set(enums) == set(shapes), "C01.grid_kinds",
              lambda: f"grid_kinds {sorted(enums)} != model {sorted(shapes)}")
    sizes = conv.grid_size
    ctx.check(conv.default_grid_kind == enums["face"], "C01.default_kind",
              f"default grid kind is {conv.default_grid_kind!r}, not the face grid")

    for kind, shape in shapes.items():
        ke = enums[kind]
        n = refmodel.grid_size(spec, kind)
        ctx.at("C01.grid_size")
        ctx.check(sizes[ke] == n, "C01.grid_size",
                  lambda: f"grid_size[{kind}] = {sizes[ke]!r}, model says {n}")

        seen = set()
        for lin in range(-3, n + 3):
            if 0 <= lin < n:
                ctx.at("C01.wind")
                native = conv.wind_index(lin, grid_kind=ke)
                want = refmodel.native_index(spec, kind, lin, ke)
                ctx.check(isinstance(native, tuple) and tuple(native) == tuple(want), "C01.wind",
                          lambda: f"wind_index({lin}, {kind}) = {native!r}, expected {want!r}")
                ctx.at("C01.roundtrip_linear")
                back = conv.ravel_index(native)
                ctx.check(back == lin and not isinstance(back, bool), "C01.roundtrip_linear",
                          lambda: f"ravel_index(wind_index({lin}, {kind})) = {back!r}")
                seen.add(tuple(native))
                if kind == "face":
                    ctx.at("C01.default_kind")
                    default = conv.wind_index(lin)
                    ctx.check(tuple(default) == tuple(want), "C01.default_kind",
                              lambda: f"wind_index({lin}) without grid_kind = {default!r}")
            else:
                ctx.at("C01.reject_linear")
                ctx.raises("C01.reject_linear",
                           lambda: conv.wind_index(lin, grid_kind=ke),
                           f"wind_index({lin}, {kind}) with grid size {n}")
        ctx.check(len(seen) == n, "C01.distinct",
                  lambda: f"{n} linear indexes of {kind} map to only {len(seen)} native indexes")

        for comps in itertools.product(*(range(-1, s + 1) for s in shape)):
            in_range = all(0 <= c < s for c, s in zip(comps, shape))
            native = _pack(spec, ke, comps)
            if in_range:
                ctx.at("C01.ravel")
                lin = conv.ravel_index(native)
                want = refmodel.linear_of(spec, kind, comps)
                ctx.check(lin == want, "C01.ravel",
                          lambda: f"ravel_index({native!r}) = {lin!r}, expected {want}")
                ctx.at("C01.roundtrip_native")
                back = conv.wind_index(lin, grid_kind=ke)
                ctx.check(tuple(back) == tuple(native), "C01.roundtrip_native",
                          lambda: f"wind_index(ravel_index({native!r})) = {back!r}")
            else:
                ctx.at("C01.reject_native")
                ctx.raises("C01.reject_native", lambda: conv.ravel_index(native),
                           f"ravel_index({native!r}) on {kind} grid of shape {shape}")
    return shapes


def _pack(spec, kind_enum, comps):
    if spec["conv"] in ("cf1d", "cf2d", "shoc_simple"):
        return tuple(comps)
    return (kind_enum,) + tuple(comps)


def check_spec(spec, ctx):
    shapes = sweep(spec, ctx)
    ctx.label("conv:" + spec["conv"])
    face = shapes["face"]
    non_square = len(face) == 2 and face[0] != face[1]
    multi = len(set(shapes.values())) >= 2
    if spec["conv"] == "ugrid":
        ctx.label("ugrid:edge_dim" if "edge" in shapes else "ugrid:no_edge_dim")
    if len(face) == 2 and 1 in face:
        ctx.label("shape:1xN or Nx1")
    ctx.nontrivial(non_square or multi)


def strategy(tier):
    return S.dataset_spec(with_vars=False, modes=("raw",))


# ---- exhaustive shapes

def enum_cases(tier):
    top = 5 if tier == "thorough" else 4
    for conv in ("cf1d", "cf2d", "shoc_simple", "arakawa", "shoc_standard"):
        for nj in range(1, top + 1):
            for ni in range(1, top + 1):
                yield {"conv": conv, "nj": nj, "ni": ni}
    for nf in range(1, (12 if tier == "thorough" else 6) + 1):
        for supply in ([], ["edge_node"]):
            yield {"conv": "ugrid", "nf": nf, "supply": supply}
    # 2-D grids whose coordinate variables are named like their own dimensions, lat(lat, lon) and
    # lon(lat, lon) (only here: xarray's multi-file machinery, which clip uses, cannot open such
    # datasets, so the other properties do not generate them)
    for conv in ("cf2d",):
        for nj, ni in ((2, 3), (3, 5), (4, 2)):
            yield {"conv": conv, "nj": nj, "ni": ni, "names": {"lat": "lat", "lon": "lon", "y": "lat", "x": "lon"}}
    # every pair of CF unit spellings for the two axes, either variable first, on a non-square grid
    for conv in ("cf1d", "cf2d"):
        for a in range(6):
            for b in range(6):
                for lon_first in (False, True):
                    yield {"conv": conv, "nj": 2, "ni": 3, "detect": f"spelling:{a}:{b}",
                           "lon_first": lon_first}


def regular_spec(case):
    conv = case["conv"]
    if conv == "ugrid":
        nf = case["nf"]
        nodes = [[float(i), 0.0] for i in range(nf + 1)] + [[float(i), 1.0] for i in range(nf + 1)]
        faces = [[i, i + 1, nf + 1 + i + 1, nf + 1 + i] for i in range(nf)]
        enc = {
            "names": S.UGRID_NAMESETS[0], "dims": S.UGRID_DIMSETS[0], "start_index": None,
            "fill": "int", "dtype": "i4", "supply": case["supply"], "transposed": [],
            "edge_dim_attr": False, "face_dim_attr": False, "coords_as": "var",
            "face_coords": False, "edge_coords": False,
        }
        return {"conv": conv, "geom": {"nodes": nodes, "faces": faces,
                                       "edges": specs.mesh_edges(faces), "enc": enc},
                "extra": {}, "vars": [], "mode": "raw"}
    nj, ni = case["nj"], case["ni"]
    if conv == "cf1d":
        geom = {"lat": [float(j) for j in range(nj)], "lon": [float(i) for i in range(ni)],
                "lat_bounds": [[j - 0.5, j + 0.5] for j in range(nj)],
                "lon_bounds": [[i - 0.5, i + 0.5] for i in range(ni)],
                "names": S.CF1D_NAMES[1], "coords_as": "coord", "bounds_as": "var",
                "detect": "units"}
    else:
        nodes = [[[float(i), float(j)] for i in range(ni + 1)] for j in range(nj + 1)]
        if conv in ("cf2d", "shoc_simple"):
            geom = {"nodes": nodes, "holes": [[False] * ni for _ in range(nj)], "bounds": True,
                    "names": (S.SHOC_SIMPLE_NAMES if conv == "shoc_simple" else S.CF2D_NAMES)[0],
                    "coords_as": "coord", "bounds_as": "var", "detect": "units"}
        else:
            geom = {"nodes": nodes, "coords_as": "coord"}
    if case.get("names"):
        geom["names"] = case["names"]
    if case.get("detect"):
        geom["detect"] = case["detect"]
        geom["lon_first"] = case.get("lon_first", False)
        if conv == "cf1d":
            geom["names"] = S.CF1D_NAMES[2]       # coordinate names that say nothing (yc, xc)
            geom["coords_as"] = "var"
        else:
            geom["names"] = S.CF2D_NAMES[2]
    return {"conv": conv, "geom": geom, "extra": {}, "vars": [], "mode": "raw"}


def check_enum(case, ctx):
    spec = regular_spec(case)
    check_spec(spec, ctx)


# ---- very large grids (index arithmetic must not wrap at 2**31 or 2**32)

LARGE_SIDES = [1, 2, 3, 1000, 46340, 46341, 65535, 65536, 65537, 92682, 100000, 250000]


@st.composite
def large_cases(draw):
    side = st.one_of(st.sampled_from(LARGE_SIDES), st.integers(1, 300000))
    ny, nx = draw(side), draw(side)
    n = ny * nx
    landmarks = [0, 1, n - 1, n // 2, nx - 1, nx, 2 ** 31 - 1, 2 ** 31, 2 ** 31 + 1,
                 2 ** 32 - 1, 2 ** 32, 2 ** 32 + 1, n - nx, n - nx - 1]
    probes = [p for p in landmarks if 0 <= p < n]
    probes += draw(st.lists(st.integers(0, n - 1), min_size=4, max_size=12))
    outside = [n, n + 1, n + nx, -1, 2 * n, n + 2 ** 31, n + 2 ** 32] + \
        [p for p in (2 ** 31, 2 ** 32) if p >= n]
    return {"ny": ny, "nx": nx, "probes": sorted(set(probes)), "outside": sorted(set(outside)),
            "names": draw(st.sampled_from(S.CF1D_NAMES))}


def check_large(case, ctx):
    """A CF 1-D grid has only two 1-D coordinate arrays, so grids of 10**10 cells are cheap to
    describe: their index arithmetic is checked against Python's exact integers."""
    import numpy
    import xarray
    from vf.common import import_emsarray
    import_emsarray()
    import emsarray.conventions as conventions
    ny, nx, names = case["ny"], case["nx"], case["names"]
    n = ny * nx
    lat = -80.0 + 160.0 * numpy.arange(ny, dtype=numpy.float64) / max(ny, 1)
    lon = 0.0 + 359.0 * numpy.arange(nx, dtype=numpy.float64) / max(nx, 1)
    ds = xarray.Dataset(
        coords={names["lat"]: ([names["y"]], lat, {"units": "degrees_north", "standard_name": "latitude"}),
                names["lon"]: ([names["x"]], lon, {"units": "degrees_east", "standard_name": "longitude"})},
        attrs={"Conventions": "CF-1.8"})
    ctx.at("C01.grid_size")
    conv = ds.ems
    ctx.check(isinstance(conv, conventions.CFGrid1D), "C01.grid_kinds",
              lambda: f"a {ny} x {nx} CF 1-D grid is bound as {type(conv).__name__}")
    kind = conv.default_grid_kind
    size = conv.grid_size[kind]
    ctx.check(size == n and not isinstance(size, bool), "C01.grid_size",
              lambda: f"grid_size of a {ny} x {nx} grid = {size!r}, that is not {n}")
    for lin in case["probes"]:
        want = divmod(lin, nx)
        ctx.at("C01.wind")
        native = conv.wind_index(lin, grid_kind=kind)
        ctx.check(tuple(native) == want, "C01.wind",
                  lambda: f"wind_index({lin}) on a {ny} x {nx} grid = {native!r}, expected {want!r}")
        ctx.at("C01.ravel")
        back = conv.ravel_index(want)
        ctx.check(back == lin, "C01.ravel",
                  lambda: f"ravel_index({want!r}) on a {ny} x {nx} grid = {back!r}, expected {lin}")
        # the same native index handed over as narrow numpy integers (what indexing an int16 /
        # int32 index table gives): the answer is the same number
        for np_type in (numpy.int16, numpy.int32, numpy.uint8):
            if max(want) <= numpy.iinfo(np_type).max:
                typed = tuple(np_type(c) for c in want)
                back = conv.ravel_index(typed)
                ctx.check(int(back) == lin, "C01.ravel",
                          lambda: f"ravel_index({typed!r}) ({np_type.__name__} components) on a "
                          f"{ny} x {nx} grid = {back!r}, expected {lin}")
    for lin in case["outside"]:
        ctx.at("C01.reject_linear")
        ctx.raises("C01.reject_linear", lambda: conv.wind_index(lin, grid_kind=kind),
                   f"wind_index({lin}) on a {ny} x {nx} grid of {n} cells")
    for native in [(ny, 0), (0, nx), (ny - 1, nx), (-1, 0), (ny + 2 ** 32, 0)]:
        ctx.at("C01.reject_native")
        ctx.raises("C01.reject_native", lambda: conv.ravel_index(native),
                   f"ravel_index({native!r}) on a {ny} x {nx} grid")
    ctx.label("cells>=2**32" if n >= 2 ** 32 else "cells>=2**31" if n >= 2 ** 31 else "cells<2**31")
    ctx.nontrivial(n >= 2 ** 31)


def large_strategy(tier):
    return large_cases()


SUBS = [Sub("datasets", strategy, check_spec, quick=300, thorough=1500),
        Sub("large_grids", large_strategy, check_large, quick=60, thorough=600)]
ENUMS = [Enum("all_shapes", enum_cases, check_enum, exhaustive_in=("quick", "thorough"))]
