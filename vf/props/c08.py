"""
C08 - clipping keeps every selected value and blanks everything else.

Oracle (R-clip): the expected content of the clipped dataset is computed from the spec's raw
values and the reference selection (brute-force base set, reference buffer growth, incidence /
node sharing), cell by cell.  Every value of every variable of the result is compared with it,
so surviving outside data, lost selected data, misplaced rows and wrong crop windows all show.
"""
import itertools
import math

import numpy
import shapely

from vf import refmodel, specs
from vf import strategies as S
from vf.props import _clip, c04, c07
from vf.props._util import expected_scalar, is_decoded_fill, open_case, same_number
from vf.runner import Sub

PROPERTY = "C08"
RULE = (
    "Datasets of every convention with 2-4 variables (float, int without fill, int with "
    "_FillValue / missing_value; on faces, edges, nodes, left/back grids or no grid; spatial "
    "dimensions in any position; raw, CF-decoded or read from netCDF) x clip geometries of C07 x "
    "buffer 0..2 x route {clip, make_clip_mask+apply_clip_mask, mask saved to netCDF, reopened and "
    "applied to a second dataset with the same geometry and different data}. Non-trivial: the "
    "selection is a proper non-empty subset and the case has an integer variable or a variable "
    "whose spatial dimensions are not trailing. Distinct = case hash."
)
ASSUMPTIONS = [
    "the clip geometry intersects at least one cell (an empty mask is refused by design)",
    "mesh coordinate variables are plain variables here; meshes whose coordinates are xarray "
    "coordinates on mesh dimensions are exercised by the separate sub-check mesh_coords",
]


def can_hold_missing(spec, var):
    return var["dtype"] in ("f8", "f4") or var.get("fill") is not None


def check_case(case, ctx):
    spec = case["spec"]
    ds, conv = open_case(spec)
    polygons, cells, defined, rings, hole_rings, bbox = c04.case_geometry(spec, conv)
    if bbox is None:
        ctx.label("no_geometry_at_all")
        return
    geom = c07.make_geometry(case["geom"], rings, hole_rings, bbox)
    if geom is None or geom.is_empty:
        return
    base = _clip.base_set(spec, polygons, geom)
    if not base:
        ctx.label("empty_selection_skipped")
        return
    sel = _clip.Selection(spec, conv, base, case["buffer"])
    with specs.scratch_dir() as tmp:
        out, source = _clip.run_clip(ctx, "C08.clip_succeeds", case, ds, conv, geom, tmp)
    what = f"{case['route']}({case['geom']['type']}, buffer={case['buffer']})"
    compare_clipped(ctx, source, sel, out, what)

    n_faces = refmodel.grid_size(spec, "face")
    n_kept = len(sel.marks["face"]) if sel.is_mesh() else sum(
        1 for row in sel.marks["face"] for v in row if v)
    proper = 0 < n_kept < n_faces
    gd = specs.grid_dims(spec)
    permuted = any(v["kind"] and specs.var_dim_names(spec, v)[-len(gd[v["kind"]]):] != gd[v["kind"]]
                   for v in spec["vars"])
    has_int = any(v["dtype"] in ("i4", "i2") for v in spec["vars"])
    ctx.label("conv:" + spec["conv"])
    ctx.label("route:" + case["route"])
    ctx.label("mode:" + spec.get("mode", "raw"))
    for v in spec["vars"]:
        ctx.label(f"var:{v['dtype']}:{'fill' if v.get('fill') else 'nofill'}:{v['kind']}")
    ctx.nontrivial(proper and (has_int or permuted))


def compare_clipped(ctx, source, sel, out, what):
    spec = source
    gd = specs.grid_dims(spec)
    sizes = specs.dim_sizes(spec)
    grid_like = not sel.is_mesh()
    for var in spec["vars"]:
        name = var["name"]
        ctx.check(name in out.variables, "C08.variable_present",
                  lambda: f"{what}: variable {name} is missing from the clipped dataset")
        da = out[name]
        names = specs.var_dim_names(spec, var)
        ctx.check(list(da.dims) == names, "C08.dims_preserved",
                  lambda: f"{what}: {name} has dims {da.dims}, originally {names}")
        kind = var["kind"]
        values = da.values
        if kind is None:
            want_shape = tuple(sizes[d] for d in names)
            ctx.check(values.shape == want_shape, "C08.non_spatial_unchanged",
                      lambda: f"{what}: non-spatial {name} changed shape {values.shape} vs {want_shape}")
            for idx in itertools.product(*(range(n) for n in want_shape)):
                # written with its attributes and CF-decoded when reopened, on every route
                want = _as_seen(spec, var, dict(zip(names, idx)), True)
                ctx.check(same_number(values[idx], want), "C08.non_spatial_unchanged",
                          lambda: f"{what}: non-spatial {name}{idx} = {values[idx]!r}, was {want!r}")
            continue
        kd = gd[kind]
        other = [d for d in names if d not in kd]
        if sel.is_mesh():
            kept = sel.kept_positions(kind)
            want_shape = tuple(len(kept) if d in kd else sizes[d] for d in names)
            ctx.check(values.shape == want_shape, "C08.kept_rows",
                      lambda: f"{what}: {name} has shape {values.shape}; {len(kept)} {kind} elements "
                      f"are selected, expected {want_shape}")
            for r, orig in enumerate(kept):
                for extra in itertools.product(*(range(sizes[d]) for d in other)):
                    idx_by = dict(zip(other, extra))
                    idx_by[kd[0]] = orig
                    want = expected_scalar(spec, var, idx_by)
                    pos = tuple(r if d in kd else idx_by[d] for d in names)
                    ctx.check(same_number(values[pos], want), "C08.selected_values",
                              lambda: f"{what}: {name}{pos} = {values[pos]!r}; row {r} is original "
                              f"{kind} {orig} whose value is {want!r}")
            continue
        cellsw = sel.window_cells(kind)
        hj, wi = len(cellsw), len(cellsw[0])
        want_shape = tuple({kd[0]: hj, kd[1]: wi}.get(d, sizes.get(d)) for d in names)
        ctx.check(values.shape == want_shape, "C08.crop_window",
                  lambda: f"{what}: {name} has shape {values.shape}; the selection's bounding "
                  f"window on the {kind} grid gives {want_shape}")
        blank = can_hold_missing(spec, var)
        for rj in range(hj):
            for ri in range(wi):
                oj, oi, selected = cellsw[rj][ri]
                for extra in itertools.product(*(range(sizes[d]) for d in other)):
                    idx_by = dict(zip(other, extra))
                    idx_by[kd[0]], idx_by[kd[1]] = oj, oi
                    orig = _as_seen(spec, var, idx_by, True)
                    pos = tuple({kd[0]: rj, kd[1]: ri}.get(d, idx_by.get(d)) for d in names)
                    got = values[pos]
                    if selected or not blank:
                        clause = "C08.selected_values" if selected else "C08.unmaskable_unaltered"
                        ctx.check(same_number(got, orig), clause,
                                  lambda: f"{what}: {name}{pos} = {got!r}; original {kind} cell "
                                  f"({oj}, {oi}) {'(selected)' if selected else '(cannot hold missing)'} "
                                  f"holds {orig!r}")
                    else:
                        ctx.label(f"blanked_inside_window:{var['dtype']}")
                        ctx.check(_missing(got), "C08.outside_blanked",
                                  lambda: f"{what}: {name}{pos} = {got!r} survives although {kind} cell "
                                  f"({oj}, {oi}) is not selected")
    # attributes
    raw = specs.build_raw(spec)
    for key, value in raw.attrs.items():
        ctx.check(key in out.attrs and _attr_equal(out.attrs[key], value), "C08.attributes",
                  lambda: f"{what}: global attribute {key!r} = {out.attrs.get(key)!r}, was {value!r}")
    for var in spec["vars"]:
        if var["name"] not in out.variables:
            continue
        got_attrs = dict(out[var["name"]].attrs)
        got_attrs.update({k: v for k, v in out[var["name"]].encoding.items()
                          if k in ("_FillValue", "missing_value")})
        for key, value in raw[var["name"]].attrs.items():
            ctx.check(key in got_attrs and _attr_equal(got_attrs[key], value), "C08.attributes",
                      lambda: f"{what}: attribute {key!r} of {var['name']} = {got_attrs.get(key)!r}, "
                      f"was {value!r}")


def _as_seen(spec, var, idx_by, decoded_on_reopen):
    """Original value as it must appear in the clipped result.  On the grid route every variable
    is written with its fill attribute and decoded when the pieces are reopened, so a stored
    fill value comes back as NaN there."""
    v = specs.value_of(spec, var, idx_by)
    if v is None:
        if var.get("fill") is not None and not (decoded_on_reopen or is_decoded_fill(spec, var)):
            return var["fill"][1]
        return math.nan
    return v


def _missing(v):
    try:
        return bool(numpy.isnan(v))
    except TypeError:
        return False


def _attr_equal(a, b):
    try:
        return bool(numpy.all(numpy.asarray(a) == numpy.asarray(b)))
    except Exception:
        return a == b


def strategy(tier):
    return _clip.clip_cases(mesh_coords_as="var")


def mesh_strategy(tier):
    return _clip.clip_cases(convs=["ugrid"], mesh_coords_as="var")


def mesh_coords_strategy(tier):
    return _clip.clip_cases(convs=["ugrid"], mesh_coords_as="coord")


def edge_dimension_only_strategy(tier):
    from hypothesis import strategies as st

    @st.composite
    def build(draw):
        enc = draw(S.ugrid_encoding(supply=draw(st.sampled_from([[], ["face_face"]])), coords_as="var"))
        enc["edge_dim_attr"] = True
        enc["edge_coords"] = True
        case = draw(_clip.clip_cases(convs=["ugrid"], mesh_coords_as="var"))
        spec = case["spec"]
        spec["geom"]["enc"] = enc
        spec["geom"]["edges"] = specs.mesh_edges(spec["geom"]["faces"])
        spec["vars"] = [v for v in spec["vars"] if v["kind"] != "edge"] + [
            {"name": "on_edges", "kind": "edge", "dims": ["@0"] + list(spec["extra"])[:1],
             "dtype": "f8", "fill": None}]
        S.without_clashing_extra(spec)
        return case
    return build()


def integer_fill_strategy(tier):
    """Grid conventions, raw (undecoded) integer variables whose declared fill value is one of
    the awkward ones (0, -1, the type's maximum), multi-part geometries so that the selection
    does not fill its crop window."""
    from hypothesis import strategies as st
    from vf.props import c07

    @st.composite
    def build(draw):
        case = draw(_clip.clip_cases(convs=["cf1d", "cf2d", "shoc_simple", "arakawa", "shoc_standard"]))
        spec = case["spec"]
        spec["mode"] = "raw"
        for var in spec["vars"]:
            if var["kind"] is not None:
                var["dtype"] = draw(st.sampled_from(["i4", "i2"]))
                var["fill"] = [draw(st.sampled_from(["_FillValue", "missing_value"])),
                               draw(st.sampled_from([0, 0, -1, 32767]))]
                var.pop("nan", None)
        case["geom"] = {"type": "multi", "parts": [draw(c07.SIMPLE_GEOM), draw(c07.SIMPLE_GEOM)]}
        return case
    return build()


def integer_nofill_strategy(tier):
    """Grid conventions, integer variables WITHOUT any fill value (they cannot hold 'missing', so
    unselected cells inside the crop window keep their values), scattered selections."""
    from hypothesis import strategies as st
    from vf.props import c07

    @st.composite
    def build(draw):
        case = draw(_clip.clip_cases(convs=["cf1d", "cf2d", "shoc_simple", "arakawa", "shoc_standard"]))
        spec = case["spec"]
        for var in spec["vars"]:
            if var["kind"] is not None:
                var["dtype"] = draw(st.sampled_from(["i4", "i2"]))
                var["fill"] = None
                var.pop("nan", None)
        case["geom"] = {"type": "multi", "parts": [
            {"type": "cell", "cell": draw(st.integers(0, 63))}, {"type": "cell", "cell": draw(st.integers(0, 63))}]}
        return case
    return build()


SUBS = [
    Sub("clip", strategy, check_case, quick=150, thorough=600),
    Sub("integer_fill_values", integer_fill_strategy, check_case, quick=40, thorough=200),
    Sub("integers_without_fill_value", integer_nofill_strategy, check_case, quick=30, thorough=150),
    Sub("mesh_edge_dimension_without_tables", edge_dimension_only_strategy, check_case,
        quick=20, thorough=100),
    Sub("clip_meshes", mesh_strategy, check_case, quick=60, thorough=300),
    Sub("mesh_coords", mesh_coords_strategy, check_case, quick=30, thorough=150),
]
MATCHERS = {}
