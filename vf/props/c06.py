"""
C06 - cell polygons and dataset extent are faithful to the dataset's coordinates.

Oracle: R-cells (vf.refmodel.cells): the corner list of every cell computed from the spec by
scalar arithmetic.  Polygon rings are compared exactly (after normalising ring start and
direction); bounds exactly; the overall geometry against the union of the reference polygons
(relative tolerance 1e-9 on the symmetric difference area).
"""
import re
import warnings

import numpy
import shapely
from hypothesis import strategies as st
from shapely.geometry import Polygon

from vf import refmodel, specs
from vf import strategies as S
from vf.common import import_emsarray
from vf.props._util import changed_variables, snapshot_of_case
from vf.runner import Sub

PROPERTY = "C06"
RULE = (
    "Datasets of every convention over all coordinate classes: 1-D axes ascending/descending, "
    "uniform/non-uniform, bounds absent / stored contiguous (not at midpoints) / stored with gaps, "
    "bounds rows in either order; 2-D grids skewed/rotated with stored bounds or none, holes, "
    "self-intersecting cells; node grids with masked regions; meshes mixing triangles, quads and "
    "larger faces, 0/1-based, NaN or integer fill, transposed tables, bow-tie faces; coordinate "
    "variables as coordinates or plain variables; in memory, CF-decoded or through netCDF. "
    "Non-trivial: the case has a hole or invalid cell, or a descending / non-uniform axis or "
    "stored bounds, or mixed face sizes. Distinct = spec hash."
)
ASSUMPTIONS = [
    "for 2-D CF grids without stored bounds the statements define no construction: only validity "
    "(valid polygon, no two cells overlap, no polygon for a missing centre) "
    "is asserted",
    "mesh nodes all have coordinates (meshes get their holes from self-intersecting faces)",
]

TOL = 1e-9


def check_spec(spec, ctx):
    import_emsarray()
    from emsarray.exceptions import InvalidPolygonWarning
    with warnings.catch_warnings(record=True) as caught:
        warnings.simplefilter("always")
        ds = specs.build(spec)
        before = snapshot_of_case(spec, ds)
        conv = specs.bind_convention(spec, ds)
        ctx.at("C06.polygons")
        polygons = conv.polygons
        mask = conv.mask
    # the polygons are a function of the dataset: reading them (or anything in the warm-up
    # history) must leave every variable of the dataset bit for bit as it was
    touched = changed_variables(ds, before)
    ctx.check(not touched, "C06.dataset_untouched",
              lambda: f"reading the geometry (warm-up {spec.get('warmup')}) changed dataset "
              f"variables {touched}")
    with warnings.catch_warnings(record=True):
        warnings.simplefilter("always")
        with ctx.using("C06.dataset_untouched", "polygons of a second convention object on the same dataset"):
            again = specs.construct_convention(spec, ds).polygons
            same = len(again) == len(polygons) and all(
                (a is None and b is None) or (a is not None and b is not None and a.equals_exact(b, 0))
                for a, b in zip(again, polygons))
            ctx.check(same, "C06.dataset_untouched",
                      "a second convention object on the same dataset reports different polygons")
    invalid_warnings = [w for w in caught if issubclass(w.category, InvalidPolygonWarning)]

    n_faces = refmodel.grid_size(spec, "face")
    cells = refmodel.cells(spec)
    defined = refmodel.cells_defined_by_statement(spec)
    invalid = refmodel.invalid_cells(spec)
    ctx.check(len(polygons) == n_faces, "C06.polygons",
              lambda: f"{len(polygons)} polygons for {n_faces} cells")
    ctx.check(not polygons.flags.writeable, "C06.read_only", "the polygons array is writeable")

    for n in range(n_faces):
        poly = polygons[n]
        ctx.check(bool(mask[n]) == (poly is not None), "C06.mask",
                  lambda: f"mask[{n}] = {mask[n]!r} but polygons[{n}] is {'None' if poly is None else 'set'}")
        if poly is not None:
            ctx.check(isinstance(poly, Polygon) and poly.is_valid, "C06.valid",
                      lambda: f"polygons[{n}] = {poly.wkt} is kept although it is not a valid polygon")
        if not defined:
            continue
        want = cells[n]
        if want is None:
            ctx.check(poly is None, "C06.missing_or_invalid_has_no_polygon",
                      lambda: f"cell {n} has {'self-intersecting' if n in invalid else 'missing'} "
                      f"coordinates but polygons[{n}] = {poly.wkt}")
            continue
        ctx.check(poly is not None, "C06.cell_has_polygon",
                  lambda: f"polygons[{n}] is None although the dataset gives cell {n} the corners {want}")
        got = refmodel.polygon_ring(poly)
        ctx.check(refmodel.ring_normal_form(got) == refmodel.ring_normal_form(want),
                  "C06.corners",
                  lambda: f"polygons[{n}] ring {got[:-1]} is not the cell's corner sequence {want} "
                  f"(cell {refmodel.native_components(spec, 'face', n)})")

    # ---- invalid cells are dropped *with a warning naming them*
    if defined:
        if invalid:
            ctx.check(len(invalid_warnings) >= 1, "C06.invalid_warning",
                      lambda: f"cells {invalid} are self-intersecting but no InvalidPolygonWarning was issued")
            if invalid_warnings and len(invalid) <= 5:
                text = " ".join(str(w.message) for w in invalid_warnings)
                named = {int(t) for t in re.findall(r"\d+", text)}
                ctx.check(set(invalid) <= named, "C06.invalid_warning",
                          lambda: f"warning {text!r} does not name the invalid cells {invalid}")
        else:
            ctx.check(not invalid_warnings, "C06.spurious_invalid_warning",
                      lambda: f"InvalidPolygonWarning for a dataset whose cells are all valid: "
                      f"{[str(w.message) for w in invalid_warnings]}")
    else:
        _check_synthesised(ctx, spec, conv, polygons, cells)

    # ---- bounds and overall geometry
    reference = [Polygon(c) for c in cells if c is not None] if defined else \
        [p for p in polygons if p is not None]
    if reference:
        xs = [x for p in reference for x, y in p.exterior.coords]
        ys = [y for p in reference for x, y in p.exterior.coords]
        want_bounds = (min(xs), min(ys), max(xs), max(ys))
        ctx.at("C06.bounds")
        got_bounds = tuple(float(v) for v in conv.bounds)
        if defined:
            ctx.check(got_bounds == want_bounds, "C06.bounds",
                      lambda: f"bounds = {got_bounds}, the cells span {want_bounds}")
        ctx.at("C06.geometry")
        geometry = conv.geometry
        union = shapely.unary_union(reference)
        ctx.check(geometry.is_valid, "C06.geometry",
                  lambda: f"geometry is not a valid shape: {shapely.is_valid_reason(geometry)}")
        diff = geometry.symmetric_difference(union).area
        ctx.check(diff <= TOL * max(union.area, 1e-300), "C06.geometry",
                  lambda: f"geometry (area {geometry.area}) differs from the union of the cells "
                  f"(area {union.area}) by area {diff}",
                  conv=spec["conv"], bounds_kind=spec["geom"].get("bounds_kind"))
        gb = tuple(float(v) for v in geometry.bounds)
        if defined:
            ctx.check(gb == want_bounds, "C06.geometry",
                      lambda: f"geometry.bounds = {gb}, the cells span {want_bounds}")
    else:
        ctx.label("bounds_not_asserted")

    # ---- classification
    ctx.label("conv:" + spec["conv"])
    ctx.label("mode:" + spec.get("mode", "raw"))
    g = spec["geom"]
    has_hole = any(c is None for c in cells)
    interesting = has_hole or bool(invalid)
    if spec["conv"] == "cf1d":
        for kind in g["bounds_kind"]:
            ctx.label("cf1d_bounds:" + kind)
        desc = g["lat"][0] > g["lat"][-1] or g["lon"][0] > g["lon"][-1]
        if desc:
            ctx.label("cf1d:descending_axis")
        interesting = interesting or desc or g["bounds_kind"] != ["none", "none"] or _non_uniform(g)
        ctx.label("cf1d:bounds_as_" + g.get("bounds_as", "var"))
    elif spec["conv"] == "ugrid":
        sizes = {len(f) for f in g["faces"]}
        if len(sizes) > 1:
            ctx.label("ugrid:mixed_face_sizes")
            interesting = True
        ctx.label(f"ugrid:start_index={g['enc']['start_index']}")
        ctx.label("ugrid:fill=" + g["enc"]["fill"])
        ctx.label("ugrid:coords_as_" + g["enc"]["coords_as"])
        if "face_node" in g["enc"]["transposed"]:
            ctx.label("ugrid:face_node_transposed")
    else:
        if "bounds" in g:
            ctx.label(f"{spec['conv']}:bounds={g['bounds']}")
        if g.get("coords_as") == "var":
            ctx.label("coords_as_plain_variables")
            interesting = True
    if has_hole:
        ctx.label("has_hole")
    if invalid:
        ctx.label("has_invalid_cell")
    ctx.nontrivial(interesting)


def _non_uniform(g):
    def nu(v):
        gaps = {round(v[k + 1] - v[k], 12) for k in range(len(v) - 1)}
        return len(gaps) > 1
    return nu(g["lat"]) or nu(g["lon"])


def _has_stray_nodes(spec):
    if spec["conv"] != "ugrid":
        return False
    g = spec["geom"]
    used = {k for f in g["faces"] for k in f}
    return len(used) < len(g["nodes"])


def _check_synthesised(ctx, spec, conv, polygons, cells):
    """2-D CF grid without stored bounds: validity only."""
    cx, cy = specs.lattice_centres(spec["geom"]["nodes"], spec["geom"]["holes"])
    flat = [(float(cx[j, i]), float(cy[j, i])) for j in range(cx.shape[0]) for i in range(cx.shape[1])]
    live = []
    for n, poly in enumerate(polygons):
        x, y = flat[n]
        if numpy.isnan(x):
            ctx.check(poly is None, "C06.missing_or_invalid_has_no_polygon",
                      lambda: f"cell {n} has a missing centre but polygons[{n}] = {poly.wkt}")
            continue
        if poly is None:
            continue
        live.append((n, poly))
    for a in range(len(live)):
        for b in range(a + 1, len(live)):
            (n, p), (m, q) = live[a], live[b]
            overlap = p.intersection(q).area
            ctx.check(overlap <= 1e-9 * max(p.area, q.area), "C06.synthesised_disjoint",
                      lambda: f"synthesised cells {n} and {m} overlap with area {overlap}")


def strategy(tier):
    return S.dataset_spec(with_vars=False, modes=("raw", "raw", "decoded", "netcdf", "dask", "file"),
                          geom_kwargs={"twist": True})


def cf1d_strategy(tier):
    # (also bounds that overlap their neighbours: the geometry is the UNION of the cells)
    return S.dataset_spec(convs=["cf1d"], with_vars=False, modes=("raw", "decoded"),
                          geom_kwargs={"bounds_kinds": ("none", "contig", "gaps", "overlap", "overlap")})


def mesh_strategy(tier):
    return S.dataset_spec(convs=["ugrid"], with_vars=False, modes=("raw", "decoded", "netcdf", "dask", "file"),
                          geom_kwargs={"allow_overlap": True})


@st.composite
def rotated_grid_with_corner_cut(draw):
    """2-D grids turned by 45 / 135 degrees (so that a CORNER cell is the extreme in each compass
    direction) with a staircase of five cells cut out of one corner: the extreme cell in that
    direction is then an interior cell of the array."""
    nj, ni = draw(st.integers(4, 6)), draw(st.integers(4, 6))
    (ax, ay), (bx, by) = draw(st.sampled_from([((6, 6), (-6, 6)), ((-6, 6), (-6, -6)),
                                               ((6, -6), (6, 6)), ((-6, -6), (6, -6))]))
    unit = 2.0 ** -draw(st.sampled_from([3, 4]))
    ox, oy = draw(st.integers(-150, 100)), draw(st.integers(-60, 40))
    nodes = [[[ox + unit * (i * ax + j * bx), oy + unit * (i * ay + j * by)] for i in range(ni + 1)]
             for j in range(nj + 1)]
    holes = [[False] * ni for _ in range(nj)]
    flip_j, flip_i = draw(st.booleans()), draw(st.booleans())
    for dj, di in [(0, 0), (0, 1), (0, 2), (1, 0), (2, 0)]:
        j = nj - 1 - dj if flip_j else dj
        i = ni - 1 - di if flip_i else di
        holes[j][i] = True
    shoc = draw(st.booleans())
    geom = {"nodes": nodes, "holes": holes, "twisted": [], "bounds": draw(st.sampled_from([True, True, False])),
            "bad_bounds": None,
            "names": draw(st.sampled_from(S.SHOC_SIMPLE_NAMES if shoc else S.CF2D_NAMES)),
            "coords_as": draw(st.sampled_from(["coord", "var"])),
            "bounds_as": draw(st.sampled_from(["var", "coord"])), "detect": "units",
            "decoy_first": False, "lon_first": draw(st.booleans())}
    return {"conv": "shoc_simple" if shoc else "cf2d", "geom": geom, "extra": {}, "vars": [],
            "mode": draw(st.sampled_from(["raw", "decoded"])), "bind": "auto",
            "warmup": draw(st.lists(st.sampled_from(S.WARMUP_PROPERTIES), max_size=3, unique=True))}


SUBS = [
    Sub("datasets", strategy, check_spec, quick=300, thorough=1500),
    Sub("cf1d_axes", cf1d_strategy, check_spec, quick=150, thorough=600),
    Sub("meshes", mesh_strategy, check_spec, quick=150, thorough=600),
    Sub("rotated_grids_with_corner_cut", lambda tier: rotated_grid_with_corner_cut(), check_spec,
        quick=25, thorough=150),
]
MATCHERS = {}
