"""
C10 - mesh topology is independent of encoding and internally consistent.

Oracle: R-mesh (vf.specs.mesh_edges / mesh_tables) computed from the abstract face list.  Each
case encodes the same abstract mesh twice with independently drawn encodings and compares every
normalised table of both datasets with the reference: supplied tables must come back as supplied
(the supplied edge numbering is a random permutation with random orientation, which no
derivation would reproduce), derived tables must satisfy the defining relations.
"""
import math
import warnings

import numpy
from hypothesis import strategies as st

from vf import refmodel, specs
from vf import strategies as S
from vf.common import import_emsarray
from vf.runner import Sub

PROPERTY = "C10"
RULE = (
    "Abstract meshes (1-14 faces of 3-8 nodes built from quads, triangles, merged polyomino "
    "faces and deleted cells; shuffled node / face numbering, random ring start and winding; "
    "random edge numbering and orientation) x two independently drawn encodings out of "
    "{no/0/1 start_index} x {NaN, integer _FillValue} x {int16, int32, int64} x transposed tables "
    "x every subset of {edge_node, face_edge, edge_face, face_face} x edge/face dimension "
    "declared or implied x coordinates as variables or xarray coordinates x an extra all-fill "
    "column x {raw, CF-decoded, through netCDF}; plus string-typed and invalid start_index. "
    "Non-trivial: >= 2 face sizes, >= 1 interior edge and the two encodings differ in >= 2 "
    "choices. Distinct = case hash."
)
ASSUMPTIONS = [
    "meshes are valid: simple faces, consistent supplied tables; face_edge / edge_face are only "
    "supplied together with edge_node (edge indexes are defined by that table)",
    "derived edge tables are only asserted when the dataset has an edge dimension (emsarray "
    "documents NoEdgeDimensionException otherwise)",
]


def rows_of(masked):
    data = numpy.ma.getdata(masked)
    mask = numpy.ma.getmaskarray(masked)
    return [[None if mask[r, c] else int(data[r, c]) for c in range(data.shape[1])]
            for r in range(data.shape[0])]


def compact(rows):
    return [[v for v in r if v is not None] for r in rows]


def check_encoding(ctx, mesh, enc, mode, label, order=()):
    import_emsarray()
    from emsarray.conventions.ugrid import NoEdgeDimensionException
    spec = {"conv": "ugrid", "geom": dict(mesh, enc=enc), "extra": {}, "vars": [], "mode": mode}
    faces, edges, nodes = mesh["faces"], mesh["edges"], mesh["nodes"]
    with warnings.catch_warnings():
        warnings.simplefilter("ignore")
        ds = specs.build(spec)
        ctx.at("C10.bind")
        conv = ds.ems
        topo = conv.topology
        what = f"encoding {label} {_enc_summary(enc, mode)}"

        # (a) face-node table and polygons
        ctx.at("C10.face_node")
        fn = rows_of(topo.face_node_array)
        ctx.check(compact(fn) == faces, "C10.face_node",
                  lambda: f"{what}: face_node_array = {fn}; the mesh has faces {faces}")
        ctx.check(all(r[len(f):] == [None] * (len(r) - len(f)) for r, f in zip(fn, faces)),
                  "C10.face_node",
                  lambda: f"{what}: face_node_array padding is not trailing: {fn}")
        # (d) counts and dimension names
        d = enc["dims"]
        has_edges = specs.ugrid_has_edge_dim(spec["geom"])
        ctx.at("C10.counts")
        ctx.check(topo.face_count == len(faces) and topo.node_count == len(nodes)
                  and topo.max_node_count == len(fn[0]), "C10.counts",
                  lambda: f"{what}: counts faces={topo.face_count} nodes={topo.node_count} "
                  f"max={topo.max_node_count}; mesh has {len(faces)}, {len(nodes)}")
        ctx.check(topo.face_dimension == d["face"] and topo.node_dimension == d["node"]
                  and topo.max_node_dimension == d["max_node"], "C10.dimension_names",
                  lambda: f"{what}: dimensions face={topo.face_dimension!r} node={topo.node_dimension!r} "
                  f"max_node={topo.max_node_dimension!r}; the dataset uses {d}")
        ctx.check(topo.has_edge_dimension == has_edges, "C10.dimension_names",
                  lambda: f"{what}: has_edge_dimension={topo.has_edge_dimension}, expected {has_edges}")
        polygons = conv.polygons
        want_cells = refmodel.cells(spec)
        for n, want in enumerate(want_cells):
            got = None if polygons[n] is None else refmodel.polygon_ring(polygons[n])[:-1]
            ctx.check(got == [tuple(p) for p in want], "C10.polygons",
                      lambda: f"{what}: polygon {n} has ring {got}; face {faces[n]} gives {want}")

        if not has_edges:
            ctx.label("no_edge_dimension")
            return
        # Tables are read in a drawn order (deriving one must not disturb another) ...
        first_read = {}
        for name in order:
            ctx.at("C10." + name.replace("_array", ""))
            first_read[name] = rows_of(getattr(topo, name))
        ctx.check(topo.edge_dimension == d["edge"], "C10.dimension_names",
                  lambda: f"{what}: edge dimension {topo.edge_dimension!r}, the dataset uses {d['edge']!r}")
        supplied = set(enc["supply"])
        tables = specs.mesh_tables(faces, edges)

        # edge-node: as supplied, or derived = the distinct unordered consecutive node pairs
        ctx.at("C10.edge_node")
        en = rows_of(topo.edge_node_array)
        if "edge_node" in supplied:
            ctx.check(en == edges, "C10.supplied_used_as_given",
                      lambda: f"{what}: edge_node_array = {en}; the file supplies {edges}")
            numbering = edges
        else:
            got_pairs = sorted(tuple(sorted(r)) for r in en)
            want_pairs = sorted(tuple(sorted(e)) for e in specs.mesh_edges(faces))
            ctx.check(got_pairs == want_pairs, "C10.derived_edge_node",
                      lambda: f"{what}: derived edges {got_pairs}; the faces have edges {want_pairs}")
            numbering = en
        ctx.check(topo.edge_count == len(numbering), "C10.counts",
                  lambda: f"{what}: edge_count = {topo.edge_count}, {len(numbering)} edges")
        ref = specs.mesh_tables(faces, numbering)

        ctx.at("C10.face_edge")
        fe = rows_of(topo.face_edge_array)
        clause = "C10.supplied_used_as_given" if "face_edge" in supplied else "C10.derived_face_edge"
        # a supplied table speaks the file's edge numbering, a derived one the numbering of the
        # reported edge_node_array (the same thing whenever edge_node is supplied)
        want_fe = tables["face_edge"] if "face_edge" in supplied else ref["face_edge"]
        ctx.check(compact(fe) == want_fe, clause,
                  lambda: f"{what}: face_edge_array = {fe}; edge c of a face joins its nodes c and c+1: "
                  f"{want_fe} (edges {edges if 'face_edge' in supplied else numbering})")

        ctx.at("C10.edge_face")
        ef = rows_of(topo.edge_face_array)
        if "edge_face" in supplied:
            given = specs.supplied_edge_face(spec["geom"])
            ctx.check(ef == given, "C10.supplied_used_as_given",
                      lambda: f"{what}: edge_face_array = {ef}; the file supplies {given}")
        else:
            # an edge lists exactly the faces that contain it (by the reported face_edge_array)
            containing = [[] for _ in ef]
            for f, row in enumerate(compact(fe)):
                for e in row:
                    if 0 <= e < len(containing):
                        containing[e].append(f)
            ctx.check([sorted(r) for r in compact(ef)] == [sorted(r) for r in containing],
                      "C10.derived_edge_face",
                      lambda: f"{what}: derived edge_face_array = {ef}; faces containing each edge: "
                      f"{containing}")
        ctx.check(all(len(r) == 2 for r in ef), "C10.derived_edge_face",
                  lambda: f"{what}: edge_face_array is not two columns wide: {ef}")

        ctx.at("C10.face_face")
        ff = rows_of(topo.face_face_array)
        if "face_face" in supplied:
            ctx.check([r[:len(f)] for r, f in zip(ff, faces)] == tables["face_face"],
                      "C10.supplied_used_as_given",
                      lambda: f"{what}: face_face_array = {ff}; the file supplies {tables['face_face']}")
        else:
            want = [sorted(o for o in r if o is not None) for r in tables["face_face"]]
            got = [sorted(r) for r in compact(ff)]
            ctx.check(got == want, "C10.derived_face_face",
                      lambda: f"{what}: derived face_face_array = {ff}; faces sharing an edge: {want}")
            for f, row in enumerate(got):
                for o in row:
                    ctx.check(f in got[o], "C10.derived_face_face",
                              lambda: f"{what}: face adjacency is not symmetric: {f}->{o} but not back")
        # ... and read again at the end: nothing may have changed, neither the normalised
        # tables nor the variables of the dataset they were read from
        for name, before in first_read.items():
            again = rows_of(getattr(topo, name))
            ctx.check(again == before, "C10.tables_stable",
                      lambda: f"{what}: {name} changed after other tables were read (order {order}): "
                      f"{before} -> {again}")
        fresh = specs.build(spec)
        for name in ds.variables:
            ctx.check(ds[name].identical(fresh[name]), "C10.tables_stable",
                      lambda: f"{what}: reading the topology modified dataset variable {name}")


def _enc_summary(enc, mode):
    return (f"[start_index={enc['start_index']} fill={enc['fill']} dtype={enc['dtype']} "
            f"transposed={enc['transposed']} supply={enc['supply']} edge_dim_attr={enc['edge_dim_attr']} "
            f"face_dim_attr={enc['face_dim_attr']} coords_as={enc['coords_as']} "
            f"pad={enc.get('pad_columns', 0)} mode={mode}]")


def check_case(case, ctx):
    mesh = case["mesh"]
    check_encoding(ctx, mesh, case["enc_a"], case["mode_a"], "A", case.get("order", ()))
    check_encoding(ctx, mesh, case["enc_b"], case["mode_b"], "B", case.get("order", ())[::-1])
    a, b = case["enc_a"], case["enc_b"]
    differ = sum(1 for k in ("start_index", "fill", "dtype", "transposed", "supply", "coords_as",
                             "edge_dim_attr", "face_dim_attr") if a[k] != b[k])
    differ += case["mode_a"] != case["mode_b"]
    sizes = {len(f) for f in mesh["faces"]}
    tables = specs.mesh_tables(mesh["faces"], mesh["edges"])
    interior = any(len(r) == 2 for r in tables["edge_face"])
    for enc in (a, b):
        ctx.label(f"start_index:{enc['start_index']}")
        ctx.label("fill:" + enc["fill"])
        ctx.label(f"supplied_tables:{len(enc['supply'])}")
        ctx.label("coords_as:" + enc["coords_as"])
    ctx.label("mode:" + case["mode_a"])
    ctx.label("mode:" + case["mode_b"])
    ctx.nontrivial(len(sizes) >= 2 and interior and differ >= 2)


def check_start_index(case, ctx):
    """String-typed start_index '0'/'1' is accepted with a warning, anything else refused."""
    import_emsarray()
    from emsarray.exceptions import ConventionViolationError, ConventionViolationWarning
    mesh, enc = case["mesh"], dict(case["enc"])
    value = case["value"]
    base = {"'0'": 0, "'1'": 1}.get(repr(value))
    enc["start_index"] = base if base is not None else 0
    enc["start_index_attr"] = value
    if enc.get("fill_value") == 0 and enc["start_index"] != 1:
        # (the encoding was drawn for a one-based table: 0 can only be the fill value there)
        enc["fill_value"] = None
    spec = {"conv": "ugrid", "geom": dict(mesh, enc=enc), "extra": {}, "vars": [], "mode": "raw"}
    ds = specs.build(spec)
    with warnings.catch_warnings(record=True) as caught:
        warnings.simplefilter("always")
        ctx.at("C10.start_index_attribute")
        if base is None:
            ctx.raises("C10.start_index_attribute", lambda: ds.ems.topology.face_node_array,
                       f"start_index attribute {value!r}", exc_types=ConventionViolationError)
            ctx.nontrivial(True)
            return
        rows = compact(rows_of(ds.ems.topology.face_node_array))
    ctx.check(rows == mesh["faces"], "C10.start_index_attribute",
              lambda: f"start_index={value!r}: face_node_array = {rows}, mesh faces {mesh['faces']}")
    ctx.check(any(issubclass(w.category, ConventionViolationWarning) for w in caught),
              "C10.start_index_attribute",
              f"string-typed start_index {value!r} accepted without a ConventionViolationWarning")
    ctx.nontrivial(True)


@st.composite
def cases(draw):
    m = draw(S.abstract_mesh(max_j=3, max_i=4, allow_bowtie=False))
    mesh = {"nodes": m["nodes"], "faces": m["faces"], "invalid": [],
            "edges": draw(S.edge_numbering(m["faces"]))}
    out = {"mesh": mesh}
    for tag in ("a", "b"):
        # every subset of the optional tables, also edge tables without the edge-node table
        enc = draw(S.ugrid_encoding(require_edge_node=draw(st.booleans())))
        enc["pad_columns"] = draw(st.sampled_from([0, 0, 0, 1]))
        if enc["pad_columns"] and enc["fill"] == "int":
            enc["fill"] = draw(st.sampled_from(["int", "nan"]))
        out["enc_" + tag] = enc
        out["mode_" + tag] = draw(st.sampled_from(["raw", "raw", "raw", "decoded", "decoded", "netcdf"]))
    out["order"] = list(draw(st.permutations(
        ["edge_node_array", "face_edge_array", "edge_face_array", "face_face_array"])))
    return out


@st.composite
def start_index_cases(draw):
    m = draw(S.abstract_mesh(max_j=2, max_i=2, allow_bowtie=False))
    mesh = {"nodes": m["nodes"], "faces": m["faces"], "invalid": [],
            "edges": draw(S.edge_numbering(m["faces"]))}
    enc = draw(S.ugrid_encoding(supply=[], allow_transpose=False))
    value = draw(st.sampled_from(["0", "1", "2", "one", 2, -1, 1.5]))
    return {"mesh": mesh, "enc": enc, "value": value}


@st.composite
def large_mesh_cases(draw):
    """Strips of 100-260 faces (200-520 nodes) in narrow integer types: sizes at which node or
    edge numbers, or arithmetic on them, no longer fit a careless intermediate type."""
    nf = draw(st.integers(100, 260))
    n_nodes = 2 * (nf + 1)
    # a node renumbering k -> (a * k + b) mod N with a coprime to N (drawn, not random)
    a = draw(st.sampled_from([1, 3, 5, 7, 11, 13, 17, 19, 23, 29, 31, 37]))
    while math.gcd(a, n_nodes) != 1:
        a += 2
    b = draw(st.integers(0, n_nodes - 1))
    number = [(a * k + b) % n_nodes for k in range(n_nodes)]
    nodes = [None] * n_nodes
    for i in range(nf + 1):
        nodes[number[i]] = [i * 0.25, 0.0]
        nodes[number[nf + 1 + i]] = [i * 0.25, 0.25]
    split = draw(st.integers(0, 3))
    rot = draw(st.integers(0, 3))
    faces = []
    for i in range(nf):
        quad = [number[i], number[i + 1], number[nf + 1 + i + 1], number[nf + 1 + i]]
        if split and i % (split + 1) == 0:
            faces.append([quad[0], quad[1], quad[2]])
            faces.append([quad[0], quad[2], quad[3]])
        else:
            r = (rot + i) % 4
            faces.append(quad[r:] + quad[:r])
    mesh = {"nodes": nodes, "faces": faces, "invalid": [], "edges": specs.mesh_edges(faces)}
    if draw(st.booleans()):
        mesh["edges"] = mesh["edges"][::-1]
    out = {"mesh": mesh}
    for tag in ("a", "b"):
        enc = draw(S.ugrid_encoding(require_edge_node=draw(st.booleans()), dtypes=("i2", "i2", "i4")))
        enc["edge_dim_attr"] = True
        if "edge_node" not in enc["supply"] and "edge_face" not in enc["supply"]:
            enc["edge_coords"] = True
        out["enc_" + tag] = enc
        out["mode_" + tag] = draw(st.sampled_from(["raw", "raw", "decoded"]))
    out["order"] = list(draw(st.permutations(
        ["edge_node_array", "face_edge_array", "edge_face_array", "face_face_array"])))
    return out


@st.composite
def declared_edge_dimension_cases(draw):
    """The mesh variable declares an edge dimension, but no variable of the dataset uses it (no
    edge tables, no edge coordinates): every edge table is derived, the edge count too.  Meshes
    with deleted cells (holes, several components) and with nodes that no face uses."""
    m = draw(S.abstract_mesh(max_j=3, max_i=4, allow_bowtie=False, allow_delete=True))
    mesh = {"nodes": m["nodes"], "faces": m["faces"], "invalid": [],
            "edges": specs.mesh_edges(m["faces"])}
    out = {"mesh": mesh}
    for tag in ("a", "b"):
        supply = draw(st.sampled_from([[], ["face_face"]]))
        enc = draw(S.ugrid_encoding(supply=supply))
        enc["edge_dim_attr"] = True
        enc["edge_coords"] = False
        enc["transposed"] = [t for t in enc["transposed"] if t in ("face_node", "face_face")]
        out["enc_" + tag] = enc
        out["mode_" + tag] = draw(st.sampled_from(["raw", "raw", "decoded"]))
    out["order"] = list(draw(st.permutations(
        ["edge_node_array", "face_edge_array", "edge_face_array", "face_face_array"])))
    return out


def strategy(tier):
    return cases()


def start_index_strategy(tier):
    return start_index_cases()


SUBS = [
    Sub("two_encodings", strategy, check_case, quick=250, thorough=1500),
    Sub("start_index_attribute", start_index_strategy, check_start_index, quick=30, thorough=100),
    Sub("declared_edge_dimension_without_variables", lambda tier: declared_edge_dimension_cases(),
        check_case, quick=40, thorough=250),
    Sub("large_strip_meshes", lambda tier: large_mesh_cases(), check_case, quick=6, thorough=40),
]
MATCHERS = {}
