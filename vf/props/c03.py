"""
C03 - flattening and winding variables are exact inverses.

Oracle: explicit per-element gathers.  ravel(v)[extra..., n] must be v[extra..., native(n)] with
native(n) from R-index; wind(x)[extra..., j, i, ...] must be x[extra..., lin(j, i), ...].  No
reshape is used on the oracle side.
"""
import itertools

import numpy
import xarray
from hypothesis import strategies as st

from vf import refmodel, specs
from vf import strategies as S
from vf.props._util import open_case, same_number
from vf.runner import Sub

PROPERTY = "C03"
RULE = (
    "Datasets of every convention; (1) every variable of the dataset (0-3 extra dimensions, any "
    "dimension order) is flattened with default and custom linear dimension names and wound back "
    "by default position, axis number (positive and negative) and dimension name; (2) arbitrary "
    "linear data (int/float/bool/datetime64) with the linear dimension first, in the middle or "
    "last, and with other dimensions sometimes sized exactly like the grid, is wound on every "
    "grid kind and flattened again. Non-trivial: grid dims not trailing, or a non-default grid "
    "kind, or the linear dimension not last, or a custom/colliding name. Distinct = case hash."
)
ASSUMPTIONS = [
    "a linear dimension name that collides with a dimension the variable keeps may be refused "
    "with an error; silently different values are the violation",
]


def _gather_expected(da_values, da_dims, kind_dims, comps, other, extra_idx):
    idx = []
    for d in da_dims:
        if d in kind_dims:
            idx.append(comps[kind_dims.index(d)])
        else:
            idx.append(extra_idx[other.index(d)])
    return da_values[tuple(idx)]


def expected_default_name(dims):
    if "index" not in dims:
        return "index"
    k = 0
    while f"index_{k}" in dims:
        k += 1
    return f"index_{k}"


def check_case(case, ctx):
    spec = case["spec"]
    ds, conv = open_case(spec)
    gdims = specs.grid_dims(spec)
    shapes = specs.grid_shapes(spec)
    enums = refmodel.kind_enums(conv)
    sizes = specs.dim_sizes(spec)
    nontrivial = False

    # ---- (1) variables of the dataset: ravel then wind
    for var in spec["vars"]:
        da = ds[var["name"]]
        kind = var["kind"]
        names = list(da.dims)
        if kind is None:
            ctx.at("C03.refuse_no_grid")
            ctx.raises("C03.refuse_no_grid", lambda: conv.ravel(da),
                       f"ravel of {var['name']} with dims {names}, which is on no grid",
                       exc_types=ValueError)
            continue
        kd = gdims[kind]
        ke = enums[kind]
        other = [d for d in names if d not in kd]
        n_cells = refmodel.grid_size(spec, kind)
        if names[-len(kd):] != kd or kind != "face":
            nontrivial = True
        for lin_name in case["lin_names"]:
            if lin_name == "@default":
                kwargs, want_name = {}, expected_default_name(names)
            elif lin_name == "@grid0":
                kwargs, want_name = {"linear_dimension": kd[0]}, kd[0]
            elif lin_name == "@kept":
                if not other:
                    continue
                kwargs, want_name = {"linear_dimension": other[0]}, other[0]
            else:
                kwargs, want_name = {"linear_dimension": lin_name}, lin_name
            if lin_name != "@default":
                nontrivial = True
            ctx.at("C03.ravel")
            if lin_name == "@kept" or want_name in other:
                # collision with a kept dimension: refusing is fine, wrong values are not
                try:
                    flat = conv.ravel(da, **kwargs)
                except Exception:
                    ctx.label("collision:refused")
                    continue
                ctx.label("collision:accepted")
                _check_collision(ctx, conv, da, flat, ke, kd, other, spec, kind)
                continue
            flat = conv.ravel(da, **kwargs)
            ctx.check(tuple(flat.dims) == tuple(other) + (want_name,), "C03.ravel_dims",
                      lambda: f"ravel({var['name']}{names}, {kwargs}) has dims {flat.dims}; "
                      f"expected {tuple(other) + (want_name,)}")
            ctx.check(flat.dtype == da.dtype, "C03.ravel_dtype",
                      lambda: f"ravel changed dtype {da.dtype} -> {flat.dtype}")
            ctx.check(flat.shape == tuple(sizes[d] for d in other) + (n_cells,), "C03.ravel_dims",
                      lambda: f"ravel({var['name']}) has shape {flat.shape}")
            fv, dv = flat.values, da.values
            for n in range(n_cells):
                comps = refmodel.native_components(spec, kind, n)
                for extra_idx in itertools.product(*(range(sizes[d]) for d in other)):
                    want = _gather_expected(dv, names, kd, comps, other, extra_idx)
                    got = fv[extra_idx + (n,)]
                    ctx.check(same_number(got, want), "C03.ravel_values",
                              lambda: f"ravel({var['name']}{names})[{extra_idx}, {n}] = {got!r}; "
                              f"the variable holds {want!r} at {dict(zip(kd, comps))}, {dict(zip(other, extra_idx))}")
            # wind back in every way
            want_dims = tuple(other) + tuple(kd)
            want_back = da.transpose(*want_dims)
            hows = [("name", {"linear_dimension": want_name}), ("axis-1", {"axis": -1}),
                    ("axis+", {"axis": len(flat.dims) - 1}), ("default", {})]
            for label, wk in hows:
                ctx.at("C03.wind_inverse")
                back = conv.wind(flat, grid_kind=ke, **wk)
                ctx.check(tuple(back.dims) == want_dims, "C03.wind_dims",
                          lambda: f"wind(ravel({var['name']}{names}), {label}) has dims {back.dims}; "
                          f"expected {want_dims}")
                ctx.check(back.dtype == da.dtype, "C03.wind_dtype",
                          lambda: f"wind changed dtype {da.dtype} -> {back.dtype}")
                ctx.check(back.shape == want_back.shape
                          and _arrays_identical(back.values, want_back.values),
                          "C03.wind_inverse",
                          lambda: f"wind(ravel(v), {label}) differs from v for {var['name']}{names} "
                          f"on {kind}: got {back.values.tolist()} expected {want_back.values.tolist()}")

    # ---- (1b) the same data under another variable's name (a derived or renamed array)
    var_kinds = {v["name"]: v["kind"] for v in spec["vars"]}
    for var in spec["vars"]:
        if var["kind"] is None:
            continue
        for other_name, other_kind in var_kinds.items():
            if other_kind == var["kind"]:
                continue
            da = ds[var["name"]]
            alias = da.rename(other_name)
            what = f"{var['name']} (on {var['kind']}) renamed {other_name!r} (a variable on {other_kind})"
            with ctx.using("C03.kind_by_dimensions", what):
                got_kind = conv.get_grid_kind(alias)
                ctx.check(got_kind == enums[var["kind"]], "C03.kind_by_dimensions",
                          lambda: f"get_grid_kind({what}) = {got_kind}")
                flat_a, flat_b = conv.ravel(alias), conv.ravel(da)
                ctx.check(flat_a.dims == flat_b.dims
                          and _arrays_identical(flat_a.values, flat_b.values),
                          "C03.kind_by_dimensions", lambda: f"ravel({what}) differs from ravel of the variable itself")
            ctx.label("renamed_across_kinds")
            nontrivial = True

    # ---- (2) arbitrary linear data
    for lin in case["linear"]:
        kinds = sorted(shapes)
        kind = kinds[lin["kind"] % len(kinds)]
        ke = enums[kind]
        kd = gdims[kind]
        shape = shapes[kind]
        n_cells = refmodel.grid_size(spec, kind)
        # "@grid0": the linear dimension carries the name of a dimension it is wound into (what
        # ravel(..., linear_dimension=<a grid dimension>) produces)
        lin = dict(lin, name=kd[0] if lin["name"] == "@grid0" else lin["name"])
        if lin["name"] == kd[0]:
            ctx.label("linear_dimension_named_like_a_grid_dimension")
        others = []
        for name, mode in lin["others"]:
            if name in kd or name == lin["name"] or name in [o[0] for o in others]:
                continue
            others.append((name, n_cells if mode == "N" else mode))
        pos = lin["pos"] % (len(others) + 1)
        dims = [o[0] for o in others]
        dims.insert(pos, lin["name"])
        full_shape = [o[1] for o in others]
        full_shape.insert(pos, n_cells)
        data = _coded_array(full_shape, lin["dtype"])
        # the array may carry any name, including that of a dataset variable on another grid:
        # what grid an array is on is decided by its dimensions alone
        name_pool = [None, None] + sorted(str(v) for v in ds.variables)
        d = xarray.DataArray(data, dims=dims, name=name_pool[lin.get("alias", 0) % len(name_pool)])
        if d.name is not None:
            ctx.label("linear_array_named_like_a_variable")
        how = lin["how"]
        if how == "default" and pos != len(others):
            how = "name"
        wk = {"name": {"linear_dimension": lin["name"]}, "axis": {"axis": pos},
              "axis-": {"axis": pos - len(dims)}, "default": {}}[how]
        if kind != "face" or pos != len(others) or any(o[1] == n_cells for o in others):
            nontrivial = True
        ctx.at("C03.wind")
        wound = conv.wind(d, grid_kind=ke, **wk)
        if kind == "face":
            # the face grid is the default grid kind: leaving grid_kind out changes nothing,
            # however many nodes or edges the mesh happens to have
            plain = conv.wind(d, **wk)
            ctx.check(plain.dims == wound.dims and _arrays_identical(plain.values, wound.values),
                      "C03.wind_dims",
                      lambda: f"wind(d{dims}, {wk}) without grid_kind has dims {plain.dims}; with "
                      f"grid_kind=face {wound.dims}")
        want_dims = tuple(dims[:pos]) + tuple(kd) + tuple(dims[pos + 1:])
        ctx.check(tuple(wound.dims) == want_dims, "C03.wind_dims",
                  lambda: f"wind(d{dims}, {wk}) on {kind} has dims {wound.dims}; expected {want_dims}")
        want_shape = tuple(full_shape[:pos]) + tuple(shape) + tuple(full_shape[pos + 1:])
        ctx.check(wound.shape == want_shape and wound.dtype == d.dtype, "C03.wind_dims",
                  lambda: f"wind(d) has shape {wound.shape} dtype {wound.dtype}; expected "
                  f"{want_shape} {d.dtype}")
        wv = wound.values
        for n in range(n_cells):
            comps = refmodel.native_components(spec, kind, n)
            for rest in itertools.product(*(range(o[1]) for o in others)):
                src = list(rest)
                src.insert(pos, n)
                dst = list(rest[:pos]) + list(comps) + list(rest[pos:])
                got, want = wv[tuple(dst)], data[tuple(src)]
                ctx.check(same_number(got, want), "C03.wind_values",
                          lambda: f"wind(d{dims} shape {full_shape}, {wk}) on {kind}: element "
                          f"{dst} = {got!r}; linear element {src} = {want!r}")
        ctx.at("C03.ravel_inverse")
        again = conv.ravel(wound)
        keep = [o[0] for o in others]
        ctx.check(tuple(again.dims[:-1]) == tuple(keep) and again.shape[-1] == n_cells,
                  "C03.ravel_inverse", lambda: f"ravel(wind(d)) has dims {again.dims}")
        want = d.transpose(*keep, lin["name"]).values
        ctx.check(again.dtype == d.dtype and _arrays_identical(again.values, want),
                  "C03.ravel_inverse",
                  lambda: f"ravel(wind(d{dims}, {wk})) on {kind} is not d: got "
                  f"{again.values.tolist()} expected {want.tolist()}")

    ctx.label("conv:" + spec["conv"])
    ctx.nontrivial(nontrivial)


def _check_collision(ctx, conv, da, flat, ke, kd, other, spec, kind):
    """A colliding linear dimension name was accepted: then winding the last axis must still
    give back the original values."""
    want_dims = tuple(other) + tuple(kd)
    want_back = da.transpose(*want_dims)
    try:
        back = conv.wind(flat, grid_kind=ke, axis=-1)
    except Exception:
        return   # unusable but not silently wrong
    ok = back.shape == want_back.shape and _arrays_identical(back.values, want_back.values)
    ctx.check(ok, "C03.collision_silent_corruption",
              lambda: f"ravel({list(da.dims)}, linear_dimension={flat.dims[-1]!r}) returned dims "
              f"{flat.dims}; wind(axis=-1) then returns dims {back.dims} shape {back.shape} with "
              f"values different from the original", dims=list(da.dims))


def _arrays_identical(a, b):
    if a.shape != b.shape:
        return False
    if a.dtype.kind in "fc" or b.dtype.kind in "fc":
        return bool(numpy.array_equal(a, b, equal_nan=True))
    return bool(numpy.array_equal(a, b))


def _coded_array(shape, dtype):
    total = 1
    for s in shape:
        total *= s
    arr = numpy.zeros(shape, dtype={"f8": "f8", "i4": "i4", "b1": "?", "M8": "M8[s]", "f4": "f4"}[dtype])
    for k, idx in enumerate(itertools.product(*(range(s) for s in shape))):
        if dtype == "b1":
            arr[idx] = bool((k * 2654435761 >> 7) & 1)
        elif dtype == "M8":
            arr[idx] = numpy.datetime64(k * 3600, "s")
        else:
            arr[idx] = 7 + k
    return arr


@st.composite
def cases(draw):
    spec = draw(S.dataset_spec(max_vars=3, max_extra=3, modes=("raw", "raw", "decoded", "dask", "file")))
    lin_names = ["@default"] + draw(st.lists(
        st.sampled_from(["cell", "@grid0", "@kept", "index", "time", "index_0"]),
        max_size=2, unique=True))
    linear = draw(st.lists(st.fixed_dictionaries({
        "kind": st.integers(0, 3),
        "others": st.lists(st.tuples(st.sampled_from(["time", "depth", "a", "index_7"]),
                                     st.sampled_from([1, 2, 3, "N"])), max_size=2),
        "pos": st.integers(0, 2),
        "name": st.sampled_from(["index", "cell", "k", "@grid0"]),
        "dtype": st.sampled_from(["f8", "i4", "b1", "M8", "f4"]),
        "how": st.sampled_from(["default", "name", "axis", "axis-"]),
        "alias": st.integers(0, 40),
    }), min_size=1, max_size=2))
    linear = [dict(l, others=[list(o) for o in l["others"]]) for l in linear]
    return {"spec": spec, "lin_names": lin_names, "linear": linear}


def strategy(tier):
    return cases()


# ---- the two helpers on their own (no convention involved) ------------------------------------

@st.composite
def helper_cases(draw):
    n_dims = draw(st.integers(1, 5))
    names = draw(st.permutations(["time", "depth", "y", "x", "index", "n"]))[:n_dims]
    sizes = [draw(st.integers(1, 4)) for _ in names]
    k = draw(st.integers(1, n_dims))
    flatten = list(draw(st.permutations(list(names)))[:k])
    return {"dims": list(names), "sizes": sizes, "flatten": flatten,
            "linear": draw(st.sampled_from([None, "cell", "index", "k"])),
            "dtype": draw(st.sampled_from(["f8", "i4", "b1", "M8"]))}


def check_helpers(case, ctx):
    """utils.ravel_dimensions flattens the named dimensions *in the order given*, wherever they
    sit; utils.wind_dimension with those names and sizes puts every value back."""
    from vf.common import import_emsarray
    import_emsarray()
    from emsarray import utils
    dims, sizes, flatten = case["dims"], case["sizes"], case["flatten"]
    data = _coded_array(sizes, case["dtype"])
    da = xarray.DataArray(data, dims=dims)
    other = [d for d in dims if d not in flatten]
    linear = case["linear"]
    if linear is not None and linear in other:
        ctx.at("C03.helpers")
        try:
            utils.ravel_dimensions(da, list(flatten), linear_dimension=linear)
        except Exception:
            ctx.label("collision:refused")
            return
        ctx.label("collision:accepted")
        return
    ctx.at("C03.helpers")
    kwargs = {} if linear is None else {"linear_dimension": linear}
    flat = utils.ravel_dimensions(da, list(flatten), **kwargs)
    want_name = linear if linear is not None else expected_default_name(dims)
    ctx.check(tuple(flat.dims) == tuple(other) + (want_name,), "C03.ravel_dims",
              lambda: f"ravel_dimensions({dims}, {flatten}, {kwargs}) has dims {flat.dims}; expected "
              f"{tuple(other) + (want_name,)}")
    size_of = dict(zip(dims, sizes))
    flat_sizes = [size_of[d] for d in flatten]
    fv = flat.values
    ctx.check(fv.dtype == data.dtype, "C03.ravel_dtype", lambda: f"dtype {data.dtype} -> {fv.dtype}")
    for idx in itertools.product(*(range(s) for s in sizes)):
        by = dict(zip(dims, idx))
        lin = 0
        for d in flatten:
            lin = lin * size_of[d] + by[d]
        pos = tuple(by[d] for d in other) + (lin,)
        ctx.check(same_number(fv[pos], data[idx]), "C03.ravel_values",
                  lambda: f"ravel_dimensions({dims} sizes {sizes}, {flatten}): element {pos} = "
                  f"{fv[pos]!r}, the array holds {data[idx]!r} at {by}")
    back = utils.wind_dimension(flat, dimensions=flatten, sizes=flat_sizes, linear_dimension=want_name)
    want = da.transpose(*other, *flatten)
    ctx.check(tuple(back.dims) == tuple(want.dims) and _arrays_identical(back.values, want.values)
              and back.dtype == want.dtype, "C03.wind_inverse",
              lambda: f"wind_dimension(ravel_dimensions(x)) is not x for dims {dims} sizes {sizes} "
              f"flattening {flatten}")
    ctx.nontrivial(len(flatten) >= 2 and dims[-len(flatten):] != flatten)


MATCHERS = {}
SUBS = [
    Sub("ravel_wind", strategy, check_case, quick=300, thorough=2000),
    Sub("helpers", lambda tier: helper_cases(), check_helpers, quick=300, thorough=3000),
]
