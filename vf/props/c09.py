"""
C09 - clipped and subsetted datasets remain valid datasets with unchanged geometry.

Oracles: the convention class of the input; the original polygons (position mapping from the
reference selection of C08); the reference mesh model (vf.specs.mesh_tables) pushed through the
reference renumbering for every connectivity table; netCDF4 for on-disk integer types.
"""
import os
import warnings

import netCDF4
import numpy
import xarray

from vf import refmodel, specs
from vf import strategies as S
from vf.common import import_emsarray
from vf.props import _clip, c04, c05, c07
from vf.props._util import open_case
from vf.runner import Sub

PROPERTY = "C09"
RULE = (
    "Cases of C08 (all conventions; CF coordinates as coordinates or plain variables; meshes 0/1-"
    "based x every subset of optional connectivity tables x NaN / integer fill x int16/32/64 x "
    "transposed tables; raw, CF-decoded, from netCDF) x clip geometries and buffers x the three "
    "application routes, plus select_variables on random subsets of the data variables. "
    "Non-trivial: a mesh with >= 2 optional tables and 1-based indexes, or a CF grid with plain-"
    "variable coordinates, or a proper non-empty variable subset. Distinct = case hash."
)
ASSUMPTIONS = [
    "a CF 1-D grid without stored bounds that is cropped to a window one cell wide has no "
    "derivable cell geometry (two points are needed for midpoint bounds); only detection is "
    "asserted there",
    "geometry equality is asserted where the cell geometry is stored explicitly (1-D / 2-D bounds, "
    "Arakawa nodes, mesh nodes); midpoint-derived or synthesised cells change when neighbours are "
    "cropped away and are only required to stay valid",
    "the clip geometry intersects at least one cell",
]


def explicit_geometry(spec):
    conv, g = spec["conv"], spec["geom"]
    if conv == "cf1d":
        return g.get("lat_bounds") is not None and g.get("lon_bounds") is not None
    if conv in ("cf2d", "shoc_simple"):
        return bool(g["bounds"])
    return True


def bind_like(spec, dataset):
    """Bind ``dataset`` the way a user of this family would; returns the convention."""
    import_emsarray()
    if spec["conv"] == "arakawa":
        from emsarray.conventions.arakawa_c import ArakawaC
        return ArakawaC(dataset, coordinate_names=specs.arakawa_coordinate_names())
    if spec.get("decoy_latlon"):
        # a dataset that holds two latitude / longitude pairs is bound by naming its
        # coordinates, before and after
        return specs.construct_convention(spec, dataset)
    return dataset.ems


def check_case(case, ctx):
    spec = case["spec"]
    ds, conv = open_case(spec)
    want_class = specs.EXPECTED_CLASS[spec["conv"]]
    nontrivial = False

    # ---- select_variables
    data_names = [v["name"] for v in spec["vars"]]
    subset = sorted({data_names[k % len(data_names)] for k in case["subset"]}) if data_names else []
    ctx.at("C09.select_variables")
    with warnings.catch_warnings():
        warnings.simplefilter("ignore")
        sub = conv.select_variables(subset)
        for gname in c05.geometry_names(spec):
            ctx.check(gname in sub.variables, "C09.select_variables_keeps_geometry",
                      lambda: f"select_variables({subset}) dropped geometry variable {gname}")
        for name in data_names:
            ctx.check((name in sub.variables) == (name in subset), "C09.select_variables_subset",
                      lambda: f"select_variables({subset}): data variable {name} "
                      f"{'kept' if name in sub.variables else 'dropped'}")
        sub_conv = bind_like(spec, sub)
        ctx.check(type(sub_conv).__name__ == want_class, "C09.select_variables_convention",
                  lambda: f"select_variables result is a {type(sub_conv).__name__}, not {want_class}")
        _same_polygons(ctx, "C09.select_variables_polygons", conv.polygons, sub_conv.polygons,
                       list(range(len(conv.polygons))), f"select_variables({subset})")
    if subset and len(subset) < len(data_names):
        nontrivial = True

    # ---- clip
    polygons, cells, defined, rings, hole_rings, bbox = c04.case_geometry(spec, conv)
    if bbox is None:
        ctx.nontrivial(nontrivial)
        return
    geom = c07.make_geometry(case["geom"], rings, hole_rings, bbox)
    if geom is None or geom.is_empty:
        ctx.nontrivial(nontrivial)
        return
    base = _clip.base_set(spec, polygons, geom)
    if not base:
        ctx.label("empty_selection_skipped")
        ctx.nontrivial(nontrivial)
        return
    sel = _clip.Selection(spec, conv, base, case["buffer"])
    what = f"{case['route']}({case['geom']['type']}, buffer={case['buffer']})"
    with specs.scratch_dir() as tmp:
        out, source = _clip.run_clip(ctx, "C09.clip_succeeds", case, ds, conv, geom, tmp)
        with warnings.catch_warnings():
            warnings.simplefilter("ignore")
            # detection
            if spec["conv"] != "arakawa":
                import emsarray
                ctx.at("C09.same_convention")
                detected = emsarray.get_dataset_convention(out)
                ctx.check(detected is not None and detected.__name__ == want_class,
                          "C09.same_convention",
                          lambda: f"{what}: result detected as {detected!r}, input is {want_class}")
            ctx.at("C09.same_convention")
            out_conv = bind_like(spec, out)
            # geometry
            if spec["conv"] == "cf1d" and not explicit_geometry(spec) and _one_wide(spec, sel):
                # A 1-D axis without stored bounds needs two points to derive cell edges from;
                # a crop window one cell wide leaves nothing to derive them from.  The result
                # is still a dataset of the convention, but it defines no cell geometry.
                ctx.label("cf1d_one_wide_window_without_bounds")
                ctx.nontrivial(nontrivial)
                return
            ctx.at("C09.polygons")
            out_polygons = out_conv.polygons
            positions = _original_positions(spec, sel)
            ctx.check(len(out_polygons) == len(positions), "C09.polygons",
                      lambda: f"{what}: {len(out_polygons)} cells in the result, the crop window / "
                      f"selection has {len(positions)}")
            if explicit_geometry(spec):
                selected = _selected_flags(spec, sel)
                for k, orig in enumerate(positions):
                    got, want = out_polygons[k], polygons[orig]
                    if selected[k]:
                        ctx.check(_poly_equal(got, want), "C09.selected_polygon_unchanged",
                                  lambda: f"{what}: selected cell {orig} had polygon "
                                  f"{_wkt(want)}, result cell {k} has {_wkt(got)}")
                    else:
                        ctx.check(got is None or _poly_equal(got, want), "C09.no_invented_polygon",
                                  lambda: f"{what}: result cell {k} (original {orig}, not selected) "
                                  f"has polygon {_wkt(got)}; the original there was {_wkt(want)}")
            # save and reopen
            path = os.path.join(tmp, "clipped.nc")
            ctx.at("C09.save")
            out_conv.to_netcdf(path)
            with xarray.open_dataset(path) as reopened:
                reopened.load()
            ctx.at("C09.reopen")
            re_conv = bind_like(spec, reopened)
            ctx.check(type(re_conv).__name__ == want_class, "C09.reopen",
                      lambda: f"{what}: saved and reopened result is a {type(re_conv).__name__}")
            _same_polygons(ctx, "C09.reopen_polygons", out_polygons, re_conv.polygons,
                           list(range(len(out_polygons))), what + " after save/reopen")
            if spec["conv"] == "ugrid":
                _check_mesh_topology(ctx, spec, sel, out_conv, path, what)
        # clipping must leave the dataset it was given as it was: keeping a subset of its
        # variables afterwards still gives every original polygon
        if case["route"] != "saved_mask_second_dataset":
            ctx.at("C09.select_variables_after_clip")
            with warnings.catch_warnings():
                warnings.simplefilter("ignore")
                sub2 = conv.select_variables(subset)
                sub2_conv = bind_like(spec, sub2)
                _same_polygons(ctx, "C09.select_variables_after_clip", polygons, sub2_conv.polygons,
                               list(range(len(polygons))), f"select_variables({subset}) after {what}")
                pristine = specs.build(spec)
                for name in ds.variables:
                    ctx.check(dict(ds[name].attrs).keys() == dict(pristine[name].attrs).keys(),
                              "C09.select_variables_after_clip",
                              lambda: f"{what} changed the attributes of input variable {name}: "
                              f"{sorted(ds[name].attrs)} vs {sorted(pristine[name].attrs)}")
    g = spec["geom"]
    if spec["conv"] == "ugrid":
        enc = g["enc"]
        ctx.label(f"mesh_tables:{len(enc['supply'])}")
        if len(enc["supply"]) >= 2 and enc["start_index"] == 1:
            nontrivial = True
    elif g.get("coords_as") == "var":
        ctx.label("cf_plain_variable_coordinates")
        nontrivial = True
    ctx.label("conv:" + spec["conv"])
    ctx.label("route:" + case["route"])
    ctx.nontrivial(nontrivial)


def _wkt(p):
    return "None" if p is None else p.wkt


def _poly_equal(a, b):
    if a is None or b is None:
        return a is None and b is None
    return refmodel.ring_normal_form(refmodel.polygon_ring(a)) == \
        refmodel.ring_normal_form(refmodel.polygon_ring(b))


def _same_polygons(ctx, clause, before, after, positions, what):
    ctx.check(len(after) == len(positions), clause,
              lambda: f"{what}: {len(after)} polygons, expected {len(positions)}")
    for k, orig in enumerate(positions):
        ctx.check(_poly_equal(after[k], before[orig]), clause,
                  lambda: f"{what}: polygon {k} is {_wkt(after[k])}, was {_wkt(before[orig])}")


def _original_positions(spec, sel):
    if sel.is_mesh():
        return sel.kept_positions("face")
    ni = specs.grid_shapes(spec)["face"][1]
    return [j * ni + i for row in sel.window_cells("face") for (j, i, _) in row]


def _one_wide(spec, sel):
    g = spec["geom"]
    (j0, j1), (i0, i1) = sel.windows["face"]
    return (j1 - j0 < 2 and g.get("lat_bounds") is None) or (i1 - i0 < 2 and g.get("lon_bounds") is None)


def _selected_flags(spec, sel):
    if sel.is_mesh():
        return [True] * len(sel.kept_positions("face"))
    return [bool(s) for row in sel.window_cells("face") for (_, _, s) in row]


def _rows(masked):
    """Masked integer table -> list of lists with None for missing entries."""
    data = numpy.ma.getdata(masked)
    mask = numpy.ma.getmaskarray(masked)
    return [[None if mask[r, c] else int(data[r, c]) for c in range(data.shape[1])]
            for r in range(data.shape[0])]


def _check_mesh_topology(ctx, spec, sel, out_conv, path, what):
    g = spec["geom"]
    enc = g["enc"]
    faces, edges = g["faces"], g["edges"]
    kept_f = sel.kept_positions("face")
    kept_n = sel.kept_positions("node")
    fmap = {old: new for new, old in enumerate(kept_f)}
    nmap = {old: new for new, old in enumerate(kept_n)}
    topo = out_conv.topology
    out_ds = out_conv.dataset
    names = enc["names"]
    width = None

    ctx.at("C09.mesh_face_node")
    got = _rows(topo.face_node_array)
    want = [[nmap[n] for n in faces[f]] for f in kept_f]
    ctx.check([[v for v in r if v is not None] for r in got] == want, "C09.mesh_face_node",
              lambda: f"{what}: face_node of the result = {got}; kept faces renumbered give {want}")
    ctx.check(topo.node_count == len(kept_n) and topo.face_count == len(kept_f),
              "C09.mesh_counts",
              lambda: f"{what}: {topo.node_count} nodes / {topo.face_count} faces in the result, "
              f"expected {len(kept_n)} / {len(kept_f)}")

    tables = specs.mesh_tables(faces, edges)
    supplied = set(enc["supply"])
    for key in ("edge_node", "face_edge", "edge_face", "face_face"):
        present = names[key] in out_ds.variables
        ctx.check(present == (key in supplied), "C09.mesh_tables_preserved",
                  lambda: f"{what}: connectivity variable {names[key]} ({key}) "
                  f"{'appeared' if present else 'disappeared'}")
    if "edge_node" in supplied:
        kept_e = sel.kept_positions("edge")
        emap = {old: new for new, old in enumerate(kept_e)}
        ctx.at("C09.mesh_edge_node")
        got = _rows(topo.edge_node_array)
        want = [[nmap[a], nmap[b]] for a, b in (edges[e] for e in kept_e)]
        ctx.check(got == want, "C09.mesh_edge_node",
                  lambda: f"{what}: edge_node of the result = {got}; kept edges renumbered give {want}")
        if "edge_face" in supplied:
            ctx.at("C09.mesh_edge_face")
            got = [sorted(v for v in r if v is not None) for r in _rows(topo.edge_face_array)]
            want = [sorted(fmap[f] for f in tables["edge_face"][e] if f in fmap) for e in kept_e]
            ctx.check(got == want, "C09.mesh_edge_face",
                      lambda: f"{what}: edge_face of the result = {got}; expected {want}")
    kept_e_file = None
    if "face_edge" in supplied:
        # in the file's own edge numbering (which is all there is when the mesh has a face-edge
        # table but no edge-node table): the edges of the kept faces, renumbered in order
        kept_e_file = sel.kept_positions("edge") if "edge_node" in supplied else \
            sorted({e for f in kept_f for e in tables["face_edge"][f]})
        emap = {old: new for new, old in enumerate(kept_e_file)}
        ctx.at("C09.mesh_face_edge")
        got = [[v for v in r if v is not None] for r in _rows(topo.face_edge_array)]
        want = [[emap.get(e) for e in tables["face_edge"][f]] for f in kept_f]
        ctx.check(got == want, "C09.mesh_face_edge",
                  lambda: f"{what}: face_edge of the result = {got}; expected {want}")
    if "face_face" in supplied:
        ctx.at("C09.mesh_face_face")
        got = [sorted(v for v in r if v is not None) for r in _rows(topo.face_face_array)]
        want = [sorted(fmap[o] for o in tables["face_face"][f] if o is not None and o in fmap)
                for f in kept_f]
        ctx.check(got == want, "C09.mesh_face_face",
                  lambda: f"{what}: face_face of the result = {got}; expected {want}")

    # index base, integer type, value range - as written to disk
    raw = specs.build_raw(spec)
    counts = {"face_node": len(kept_n), "edge_node": len(kept_n),
              "face_edge": len(kept_e_file) if kept_e_file is not None else len(sel.marks.get("edge", [])),
              "edge_face": len(kept_f),
              "face_face": len(kept_f)}
    with netCDF4.Dataset(path) as nc:
        nc.set_auto_mask(False)
        for key in ["face_node"] + sorted(supplied):
            name = names[key]
            if name not in nc.variables:
                continue
            var = nc.variables[name]
            base = enc["start_index"] or 0
            if enc["start_index"] is not None:
                got_si = var.getncattr("start_index") if "start_index" in var.ncattrs() else None
                ctx.check(got_si is not None and int(got_si) == base, "C09.mesh_start_index",
                          lambda: f"{what}: {name}.start_index = {got_si!r}, input has {base}")
            in_dtype = raw[name].dtype
            if in_dtype.kind == "i":
                ctx.check(var.dtype == in_dtype, "C09.mesh_integer_type",
                          lambda: f"{what}: {name} written as {var.dtype}, input is {in_dtype}")
            fill = var.getncattr("_FillValue") if "_FillValue" in var.ncattrs() else None
            values = numpy.asarray(var[:]).ravel()
            bad = [v for v in values.tolist()
                   if not ((fill is not None and v == fill) or (v != v)
                           or (base <= v < base + counts[key]))]
            ctx.check(not bad, "C09.mesh_index_range",
                      lambda: f"{what}: {name} holds {bad[:5]} outside [{base}, {base + counts[key]}) "
                      f"and not the fill value {fill!r}")


def strategy(tier):
    return _clip.clip_cases(max_vars=3)


def mesh_strategy(tier):
    return _clip.clip_cases(convs=["ugrid"], max_vars=2)


def face_edge_only_strategy(tier):
    """Meshes that say which edges bound each face (face-edge table, declared edge dimension) but
    store nothing along the edge dimension itself: no edge-node table, no edge coordinates, no
    edge data."""
    from hypothesis import strategies as st

    @st.composite
    def build(draw):
        case = draw(_clip.clip_cases(convs=["ugrid"], max_vars=2))
        spec = case["spec"]
        supply = draw(st.sampled_from([["face_edge"], ["face_edge", "face_face"]]))
        enc = draw(S.ugrid_encoding(supply=supply, require_edge_node=False))
        enc["edge_dim_attr"] = True
        enc["edge_coords"] = False
        enc["transposed"] = [t for t in enc["transposed"] if t != "edge_node"]
        spec["geom"]["enc"] = enc
        spec["vars"] = [v for v in spec["vars"] if v["kind"] != "edge"]
        spec.pop("dim_coords", None)
        S.without_clashing_extra(spec)
        return case
    return build()


SUBS = [
    Sub("clip_validity", strategy, check_case, quick=120, thorough=500),
    Sub("clip_validity_meshes", mesh_strategy, check_case, quick=80, thorough=400),
    Sub("face_edge_table_without_edge_variables", face_edge_only_strategy, check_case,
        quick=20, thorough=120),
]
MATCHERS = {}
