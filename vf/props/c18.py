"""
C18 - transects cover exactly the part of the path inside the model, in path order.

Oracles: R-clip-line (vf.refmodel.path_length_inside): the length of the path inside each cell by
exact rational clipping of every path piece against the cell's corners, independent of GEOS;
R-index for the indexes; the spec's data codes for the prepared data.  Geodesic distances are only
compared for order and sign.
"""
import itertools
import math
import warnings

import numpy
import shapely
from hypothesis import strategies as st
from shapely.geometry import LineString

from vf import refmodel, specs
from vf import strategies as S
from vf.common import import_emsarray
from vf.props import c04, c12
from vf.props._util import expected_scalar, same_number
from vf.runner import Sub

PROPERTY = "C18"
RULE = (
    "Datasets of every convention (holes, skewed cells, meshes with concave faces) with a depth "
    "coordinate and 1-2 variables on (time, depth, cell) in any dimension order x simple polylines "
    "of 2-6 vertices, monotone in a random direction, whose vertices are cell vertices, edge "
    "points, interior points, hole interiors and points outside the model (so paths start or end "
    "inside or outside, run along cell edges, cross holes, leave and re-enter concave cells, or "
    "miss the model). Non-trivial: the path has >= 3 vertices, crosses >= 3 cells and crosses a "
    "hole or starts outside the model. Distinct = case hash."
)
ASSUMPTIONS = [
    "distances are computed with cartopy's Geodetic CRS standing in for PlateCarree as data_crs "
    "(this sandbox's cartopy 0.25 / PROJ 9.8 pair distorts PlateCarree latitudes; see DESIGN.md)",
    "paths are simple polylines (monotone in some direction by construction)",
    "cells do not overlap (generated meshes are planar subdivisions)",
    "lengths are compared with tolerance 1e-9 (relative to the path length); geodesic distances "
    "only for order and sign",
]

DIRECTIONS = [(1, 0), (0, 1), (1, 1), (1, -1), (2, 1), (1, 2), (-1, 0), (0, -1), (-2, 1)]
VERTEX = st.fixed_dictionaries({
    "kind": st.sampled_from(["vertex", "edge_mid", "near_edge", "interior", "interior", "centroid",
                             "hole", "beyond", "beyond", "nudge_out"]),
    "cell": st.integers(0, 63), "a": st.integers(0, 7), "b": st.integers(0, 255),
})


def make_vertex(sel, rings, hole_rings, bbox):
    if sel["kind"] == "beyond":
        minx, miny, maxx, maxy = bbox
        span = max(maxx - minx, maxy - miny, 0.25)
        corner = [(minx, miny), (maxx, miny), (maxx, maxy), (minx, maxy)][sel["a"] % 4]
        dx = -1 if corner[0] == minx else 1
        dy = -1 if corner[1] == miny else 1
        step = span / 8 * (1 + sel["b"] % 3)
        return (corner[0] + dx * step, corner[1] + dy * step * ((sel["b"] >> 2) % 2))
    return c04.make_point(sel, rings, hole_rings, bbox)


def _geodetic_data_crs(conv):
    """Environmental stand-in (like the cfunits stub).  In this sandbox cartopy 0.25 declares
    PlateCarree as 'eqc' on the WGS84 ellipsoid and PROJ 9.8 implements the ellipsoidal form of
    eqc, so transforming a PlateCarree latitude to any other projection shifts it by up to 0.19
    degrees x sin(2 lat) (745 m at 1 degree south): a point is not at distance 0 from itself.
    That is a cartopy / PROJ version mismatch, not emsarray behaviour; longitude / latitude in
    degrees is exactly what cartopy's Geodetic CRS means, so the transect's distance
    calculations are given that CRS as the dataset's data_crs."""
    import cartopy.crs
    conv.__dict__["data_crs"] = cartopy.crs.Geodetic()


@st.composite
def cases(draw, convs=S.ALL_CONVS):
    conv = draw(st.sampled_from(list(convs)))
    spec = {"conv": conv, "geom": draw(S.geometry(conv, max_n=4, max_j=3, max_i=3,
                                                   allow_bowtie=True, jitter=None))}
    # one model in four numbers its longitudes 0..360 and lies (partly) east of 180
    east = draw(st.sampled_from([0.0, 0.0, 0.0, 200.0]))
    if east:
        S.shift_geometry(spec["geom"], dx=east)
        spec["shifted_east_by"] = east
    name, dim = c12.DEPTH_NAMES.get(conv, c12.GENERIC_DEPTHS)[0]
    dc = draw(c12.depth_coordinate(name, dim, with_bounds=draw(st.booleans())))
    if dc["name"] == dc["dim"]:
        dc["as"] = "coord"
    spec["depths"] = [dc]
    extra = {dim: len(dc["values"])}
    nt = draw(st.integers(0, 2))
    if nt:
        extra["tstep"] = nt
    spec["extra"] = extra
    n_grid = 1 if conv == "ugrid" else 2
    variables = []
    for k in range(draw(st.integers(1, 2))):
        dims = [dim] + [f"@{q}" for q in range(n_grid)] + (["tstep"] if nt and draw(st.booleans()) else [])
        variables.append({"name": f"v{k}", "kind": "face", "dims": list(draw(st.permutations(dims))),
                          "dtype": draw(st.sampled_from(["f8", "f4", "i4"])), "fill": None})
    spec["vars"] = variables
    if nt and draw(st.integers(0, 3)) == 0:
        spec["pick"] = {"tstep": draw(st.integers(0, nt - 1))}      # ds.isel(tstep=k) beforehand
    spec["mode"] = draw(st.sampled_from(["raw", "raw", "dask", "file"]))
    spec.update(draw(S.storage_options(conv)))
    if conv in ("cf1d", "cf2d") and draw(st.integers(0, 2)) == 0:
        spec["bind"] = "explicit"
        spec["decoy_latlon"] = True
    return {"spec": spec,
            "vertices": draw(st.lists(VERTEX, min_size=2, max_size=6)),
            "direction": draw(st.integers(0, len(DIRECTIONS) - 1))}


def check_case(case, ctx):
    import_emsarray()
    from emsarray.transect import Transect
    spec = case["spec"]
    with warnings.catch_warnings():
        warnings.simplefilter("ignore")
        ds = specs.build(spec)
        conv = specs.bind_convention(spec, ds)
        _geodetic_data_crs(conv)
        polygons, cells, defined, rings, hole_rings, bbox = c04.case_geometry(spec, conv)
        if bbox is None:
            ctx.label("no_geometry_at_all")
            return
        pts = []
        for sel in case["vertices"]:
            if not defined and sel["kind"] in ("vertex", "edge_mid", "near_edge", "nudge_out"):
                # Synthesised cells (2-D CF grid without bounds) have corners that are means of
                # three centres, i.e. not dyadic: a path laid exactly along such an edge is along
                # it only up to rounding, and the length inside the cell is then ill-conditioned
                # (exact arithmetic and GEOS legitimately disagree).  Paths along edges are
                # exercised on the conventions whose corners are exact.
                sel = dict(sel, kind="interior")
            xy = make_vertex(sel, rings, hole_rings, bbox)
            if xy is not None and -179 < xy[0] < 359 and -89 < xy[1] < 89:
                pts.append((float(xy[0]), float(xy[1])))
        dx, dy = DIRECTIONS[case["direction"]]
        pts.sort(key=lambda p: (p[0] * dx + p[1] * dy))
        path = []
        for p in pts:
            if not path or (p[0] * dx + p[1] * dy) > (path[-1][0] * dx + path[-1][1] * dy):
                path.append(p)
        if len(path) < 2:
            return
        line = LineString(path)
        depth_name = spec["depths"][0]["name"]
        ctx.at("C18.segments")
        transect = Transect(ds, line, depth=depth_name)
        segments = transect.segments
        n_faces = len(polygons)
        enums = refmodel.kind_enums(conv)
        path_length = line.length
        tol = 1e-9 * max(path_length, 1.0)
        what = f"path {path}"

        by_cell = {}
        for s, seg in enumerate(segments):
            n = int(seg.linear_index)
            ctx.check(0 <= n < n_faces and polygons[n] is not None, "C18.segment_cell_valid",
                      lambda: f"{what}: segment {s} names cell {n}, which has no geometry")
            native = refmodel.native_index(spec, "face", n, enums["face"])
            ctx.check(tuple(seg.index) == tuple(native), "C18.segment_indexes",
                      lambda: f"{what}: segment {s} has linear index {n} but index {seg.index!r} ({native!r})")
            ctx.check(seg.polygon is polygons[n], "C18.segment_indexes",
                      lambda: f"{what}: segment {s}: polygon is not polygons[{n}]")
            piece = seg.intersection
            ctx.check(piece.geom_type == "LineString" and piece.length > 0, "C18.segment_is_line",
                      lambda: f"{what}: segment {s} is a {piece.geom_type} of length {piece.length}")
            ctx.check(polygons[n].buffer(tol).covers(piece), "C18.segment_within_cell",
                      lambda: f"{what}: segment {s} {piece.wkt} is not inside cell {n} {polygons[n].wkt}")
            ctx.check(line.buffer(tol).covers(piece), "C18.segment_on_path",
                      lambda: f"{what}: segment {s} {piece.wkt} is not part of the path")
            ctx.check(seg.start_distance <= seg.end_distance, "C18.start_before_end",
                      lambda: f"{what}: segment {s} starts at {seg.start_distance} m and ends at "
                      f"{seg.end_distance} m")
            ctx.check(seg.start_distance >= -1e-6, "C18.start_before_end",
                      lambda: f"{what}: segment {s} has negative start distance {seg.start_distance}")
            by_cell.setdefault(n, []).append(piece)
        # per cell: the segments add up to the part of the path inside the cell
        crossed = 0
        ring_source = cells if defined else rings
        for n in range(n_faces):
            ring = ring_source[n] if polygons[n] is not None else None
            want = refmodel.path_length_inside(ring, path) if ring is not None else 0.0
            pieces = by_cell.get(n, [])
            got = sum(p.length for p in pieces)
            if abs(got - want) > tol and ring is not None and not refmodel.path_runs_exactly_along(ring, path):
                # The path hugs an edge of this cell only up to rounding (a vertex computed as a
                # non-dyadic fraction lands 1e-16 beside the edge): whether that leg counts as
                # inside is then decided by the last bit, in exact arithmetic as much as in GEOS.
                # Any length between "inside the cell shrunk by a hair" and "inside the cell
                # grown by a hair" is defensible.  (A path lying EXACTLY on an edge is not in
                # this class and stays under the strict comparison.)
                lo, hi = refmodel.path_length_band(ring, path, 1e-7 * max(path_length, 1.0))
                if lo - tol <= got <= hi + tol and hi - lo > tol:
                    ctx.label("edge_hugging_up_to_rounding:band_accepted")
                    if pieces:
                        crossed += 1
                    continue
            ctx.check(abs(got - want) <= tol, "C18.lengths_add_up",
                      lambda: f"{what}: segments of cell {n} have total length {got}; the path runs "
                      f"{want} inside that cell (corners {ring})")
            if pieces:
                crossed += 1
                union = shapely.union_all(pieces).length
                ctx.check(abs(union - got) <= tol, "C18.lengths_add_up",
                          lambda: f"{what}: segments of cell {n} overlap each other ({got} vs {union})")
        # order
        starts = [seg.start_distance for seg in segments]
        ctx.check(starts == sorted(starts), "C18.sorted_by_distance",
                  lambda: f"{what}: segments are not listed by increasing start distance: {starts}")
        ends = []
        for seg in segments:
            for point, dist in ((seg.start_point, seg.start_distance), (seg.end_point, seg.end_distance)):
                ends.append((line.project(point), dist))
        ends.sort(key=lambda e: e[0])
        for (p0, d0), (p1, d1) in zip(ends, ends[1:]):
            # (projected coordinates carry millimetres of rounding noise - 1e-9 of the Earth's
            # radius: two points closer together than a centimetre may swap)
            ctx.check(d1 >= d0 - 1e-6 * max(abs(d0), 1.0) - 0.01 or abs(p1 - p0) <= 1e-12, "C18.distance_monotone",
                      lambda: f"{what}: distance along the path is not monotone: parameter {p0} -> {d0} m, "
                      f"{p1} -> {d1} m")
        # the distances themselves: metres along the path, vertex to vertex along geodesics of
        # the WGS84 ellipsoid (reference: pyproj's geodesic solver, independent of cartopy's
        # projections)
        import pyproj
        geod = pyproj.Geod(ellps="WGS84")
        planar = [0.0]
        metres = [0.0]
        for (x0, y0), (x1, y1) in zip(path, path[1:]):
            planar.append(planar[-1] + math.hypot(x1 - x0, y1 - y0))
            metres.append(metres[-1] + geod.inv(x0, y0, x1, y1)[2])
        for s, seg in enumerate(segments):
            for point, dist in ((seg.start_point, seg.start_distance), (seg.end_point, seg.end_distance)):
                t = line.project(point)
                k = max(q for q in range(len(path) - 1) if planar[q] <= t + 1e-12)
                ref = metres[k] + geod.inv(path[k][0], path[k][1], point.x, point.y)[2]
                ctx.check(abs(dist - ref) <= 1e-6 * max(ref, 1.0) + 0.01, "C18.distance_value",
                          lambda: f"{what}: segment {s} point ({point.x}, {point.y}) is reported at "
                          f"{dist} m along the path; along geodesics from vertex {k} it is at {ref} m")
        # transect dataset and prepared data
        ctx.at("C18.transect_dataset")
        tds = transect.transect_dataset
        listed = [int(v) for v in tds["linear_index"].values]
        ctx.check(listed == [int(s.linear_index) for s in segments], "C18.transect_dataset",
                  lambda: f"{what}: transect_dataset.linear_index = {listed}, segments name "
                  f"{[int(s.linear_index) for s in segments]}")
        ctx.check(tds.sizes["index"] == len(segments) and tds["distance_bounds"].shape == (len(segments), 2),
                  "C18.transect_dataset",
                  lambda: f"{what}: transect_dataset sizes {dict(tds.sizes)} for {len(segments)} segments")
        for s, seg in enumerate(segments):
            row = tds["distance_bounds"].values[s]
            ctx.check(float(row[0]) == seg.start_distance and float(row[1]) == seg.end_distance,
                      "C18.transect_dataset", lambda: f"{what}: distance_bounds[{s}] = {row}")
        sizes = specs.dim_sizes(spec)
        zdim = spec["depths"][0]["dim"]
        gd = specs.grid_dims(spec)["face"]
        for var in spec["vars"]:
            ctx.at("C18.prepared_data")
            da = ds[var["name"]]
            out = transect.prepare_data_array_for_transect(da)
            names = specs.var_dim_names(spec, var)
            other = [d for d in names if d not in gd and d != zdim]
            ctx.check(list(out.dims[:-2]) == other and out.dims[-2] == zdim
                      and out.shape[-1] == len(segments), "C18.prepared_data",
                      lambda: f"{what}: prepared {var['name']} has dims {out.dims} shape {out.shape}; "
                      f"expected {other} + [{zdim}, index] with {len(segments)} segments")
            values = out.values
            for s, seg in enumerate(segments):
                comps = refmodel.native_components(spec, "face", int(seg.linear_index))
                for idx in itertools.product(*(range(sizes[d]) for d in other + [zdim])):
                    idx_by = dict(zip(other + [zdim], idx))
                    idx_by.update(dict(zip(gd, comps)))
                    want = expected_scalar(spec, var, idx_by)
                    got = values[idx + (s,)]
                    ctx.check(same_number(got, want), "C18.prepared_data",
                              lambda: f"{what}: prepared {var['name']}{idx + (s,)} = {got!r}; segment {s} "
                              f"is cell {int(seg.linear_index)} whose value there is {want!r}")
            # history: the same transect is now handed a DIFFERENT array that has the same name,
            # dimensions and shape (an anomaly, a unit conversion): its own values come back
            derived = (da.astype("float64") * 2 + 1).rename(da.name)
            ctx.at("C18.prepared_data")
            out2 = transect.prepare_data_array_for_transect(derived)
            want2 = values.astype("float64") * 2 + 1
            ctx.check(out2.shape == want2.shape and numpy.array_equal(out2.values, want2, equal_nan=True),
                      "C18.prepared_data",
                      lambda: f"{what}: after preparing {var['name']}, preparing {var['name']}*2+1 "
                      f"(same name, dims and shape) on the same transect gives "
                      f"{out2.values.tolist()}, expected {want2.tolist()}")
    has_holes = any(p is None for p in polygons)
    start_hits = c04.cell_hits(path[0], polygons, cells, defined)
    kinds = {sel["kind"] for sel in case["vertices"]}
    ctx.label("conv:" + spec["conv"])
    ctx.label(f"vertices:{len(path)}")
    if spec.get("shifted_east_by"):
        ctx.label("model_east_of_180")
    ctx.label("segments:" + ("0" if not segments else "1-2" if len(segments) < 3 else "3+"))
    if not start_hits:
        ctx.label("starts_outside")
    if any(len(v) > 1 for v in by_cell.values()):
        ctx.label("cell_entered_twice")
    ctx.nontrivial(len(path) >= 3 and crossed >= 3 and (not start_hits or ("hole" in kinds and has_holes)))


def mesh_cases(tier):
    return cases(convs=["ugrid"])


SUBS = [
    Sub("transects", lambda tier: cases(), check_case, quick=120, thorough=600),
    Sub("transects_meshes", mesh_cases, check_case, quick=60, thorough=300),
]
MATCHERS = {}
