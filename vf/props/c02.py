"""
C02 - one linear order is shared by polygons, centres, flattened data and selectors.

Oracle: the spec.  Data values are an injective code of (variable, every dimension index), so
element n of a flattened variable can be decoded and compared with the value the spec stores at
R-index's native index of n; the same value must come out of isel(selector_for_index(...)).
Polygons / mask / centres at position n are compared with R-cells of that cell; spatial-index
hits are compared with a brute-force scan over all polygons.
"""
import itertools
import math

import numpy
import shapely

from vf import refmodel, specs
from vf import strategies as S
from vf.props._util import expected_scalar, open_case, same_number
from vf.runner import Sub

PROPERTY = "C02"
RULE = (
    "Datasets of every convention with 1-3 variables on any grid kind (0-2 extra dimensions, any "
    "dimension order, float/int dtypes, missing values), holes and skewed geometry. Non-trivial: "
    "the face grid is not square (or a mesh) AND (a hole precedes a cell with geometry OR some "
    "variable's grid dimensions are not its trailing dimensions in convention order). Distinct = "
    "distinct spec hash."
)
ASSUMPTIONS = [
    "datasets are valid instances of their convention",
    "for 2-D CF grids without stored bounds the polygons are synthesised by emsarray; only "
    "hole/centre consistency is asserted there, not the corner coordinates",
]


def check_spec(spec, ctx):
    ds, conv = open_case(spec)
    shapes = specs.grid_shapes(spec)
    gdims = specs.grid_dims(spec)
    enums = refmodel.kind_enums(conv)
    sizes = specs.dim_sizes(spec)

    dims_not_trailing = False
    for var in spec["vars"]:
        kind = var["kind"]
        if kind is None:
            continue
        ke = enums[kind]
        names = specs.var_dim_names(spec, var)
        if names[-len(gdims[kind]):] != gdims[kind]:
            dims_not_trailing = True
        da = ds[var["name"]]
        ctx.at("C02.ravel")
        flat = conv.ravel(da)
        other = [d for d in names if d not in gdims[kind]]
        n_cells = refmodel.grid_size(spec, kind)
        ctx.check(tuple(flat.dims[:-1]) == tuple(other) and flat.shape[-1] == n_cells,
                  "C02.ravel", lambda: f"ravel({var['name']}) has dims {flat.dims} shape "
                  f"{flat.shape}; expected {other} + linear of size {n_cells}")
        flat_values = flat.values
        stride = max(1, n_cells // 6)
        for n in range(n_cells):
            comps = refmodel.native_components(spec, kind, n)
            native = conv.wind_index(n, grid_kind=ke)
            with ctx.using("C02.select", f"{var['name']}.isel(selector_for_index({native!r}))"):
                picked = da.isel(conv.selector_for_index(native))
            ctx.check(tuple(picked.dims) == tuple(other), "C02.select",
                      lambda: f"isel(selector_for_index({native!r})) of {var['name']} leaves dims "
                      f"{picked.dims}, expected {other}")
            picked_values = picked.values
            if n % stride == 0 or n == n_cells - 1:
                # the documented dataset-level route (sampled on the larger grids)
                with ctx.using("C02.select_index", f"select_index({native!r})"):
                    by_index = conv.select_index(native)
                    selected = by_index[var["name"]]
                    selected_values = selected.transpose(*other).values
                for extra_idx in itertools.product(*(range(sizes[d]) for d in other)):
                    idx = dict(zip(other, extra_idx))
                    idx.update(dict(zip(gdims[kind], comps)))
                    want = expected_scalar(spec, var, idx)
                    got = selected_values[extra_idx]
                    ctx.check(same_number(got, want), "C02.select_index",
                              lambda: f"select_index({native!r})[{var['name']}][{extra_idx}] = "
                              f"{got!r}, the spec stores {want!r} at {idx}")
            for extra_idx in itertools.product(*(range(sizes[d]) for d in other)):
                idx = dict(zip(other, extra_idx))
                idx.update(dict(zip(gdims[kind], comps)))
                want = expected_scalar(spec, var, idx)
                got_flat = flat_values[extra_idx + (n,)]
                got_sel = picked_values[extra_idx]
                ctx.check(same_number(got_flat, want), "C02.ravel",
                          lambda: f"ravel({var['name']})[{extra_idx}, {n}] = {got_flat!r}, the spec "
                          f"stores {want!r} at {idx}")
                ctx.check(same_number(got_sel, want), "C02.select",
                          lambda: f"{var['name']}.isel(selector_for_index({native!r}))[{extra_idx}] "
                          f"= {got_sel!r}, the spec stores {want!r} at {idx}")

    # ---- face grid: polygons, mask, centres, spatial index
    ctx.at("C02.polygons")
    polygons = conv.polygons
    mask = conv.mask
    n_faces = refmodel.grid_size(spec, "face")
    ctx.check(len(polygons) == n_faces and len(mask) == n_faces, "C02.polygons",
              lambda: f"{len(polygons)} polygons / {len(mask)} mask entries for {n_faces} cells")
    cells = refmodel.cells(spec)
    defined = refmodel.cells_defined_by_statement(spec)
    hole_before_cell = False
    seen_hole = False
    for n in range(n_faces):
        poly = polygons[n]
        ctx.check(bool(mask[n]) == (poly is not None), "C02.mask",
                  lambda: f"mask[{n}] = {mask[n]!r} but polygons[{n}] is {poly!r}")
        if poly is None:
            seen_hole = True
        elif seen_hole:
            hole_before_cell = True
        if defined:
            want = cells[n]
            if want is None:
                ctx.check(poly is None, "C02.polygons",
                          lambda: f"cell {n} has no geometry in the dataset but polygons[{n}] = {poly.wkt}")
            else:
                ctx.check(poly is not None, "C02.polygons",
                          lambda: f"polygons[{n}] is None but the dataset defines corners {want}")
                got = set(refmodel.polygon_ring(poly))
                ctx.check(got == set(want), "C02.polygons",
                          lambda: f"polygons[{n}] has vertices {sorted(got)}; cell {n} "
                          f"({refmodel.native_components(spec, 'face', n)}) has corners {sorted(want)}")
        elif cells[n] is None:
            ctx.check(poly is None, "C02.polygons",
                      lambda: f"cell {n} has a missing centre but polygons[{n}] = {poly.wkt}")

    ctx.at("C02.centres")
    centres = conv.face_centres
    ctx.check(centres.shape == (n_faces, 2), "C02.centres",
              lambda: f"face_centres has shape {centres.shape}, expected ({n_faces}, 2)")
    stored = stored_centres(spec)
    for n in range(n_faces):
        cx, cy = centres[n]
        if stored is not None:
            wx, wy = stored[n]
            ctx.check(same_number(cx, wx) and same_number(cy, wy), "C02.centres",
                      lambda: f"face_centres[{n}] = ({cx!r}, {cy!r}); the dataset stores "
                      f"({wx!r}, {wy!r}) for cell {refmodel.native_components(spec, 'face', n)}")
        elif polygons[n] is None:
            ctx.check(math.isnan(cx) and math.isnan(cy), "C02.centres",
                      lambda: f"face_centres[{n}] = ({cx!r}, {cy!r}) for a cell without geometry")
        else:
            ctx.check(polygons[n].intersects(shapely.Point(cx, cy)), "C02.centres",
                      lambda: f"face_centres[{n}] = ({cx!r}, {cy!r}) is outside polygons[{n}]")

    ctx.at("C02.strtree")
    tree = conv.strtree
    for n in range(n_faces):
        if polygons[n] is None:
            continue
        probe = polygons[n].representative_point()
        for query in (probe, polygons[n]):
            hits = sorted(int(h) for h in tree.query(query, predicate="intersects"))
            brute = [m for m in range(n_faces)
                     if polygons[m] is not None and polygons[m].intersects(query)]
            ctx.check(hits == brute, "C02.strtree",
                      lambda: f"strtree.query({query.geom_type} of cell {n}) = {hits}, brute force "
                      f"over polygons gives {brute}")
            ctx.check(n in hits, "C02.strtree",
                      lambda: f"cell {n} is not among the spatial-index hits {hits} of its own geometry")

    # history: the dataset edited in place between two selections (see C05)
    from vf.props.c05 import _check_edited_in_place
    _check_edited_in_place(ctx, spec, ds, enums, clause="C02.select_index_after_in_place_edit")
    face = shapes["face"]
    non_square = len(face) == 1 or face[0] != face[1]
    ctx.label("conv:" + spec["conv"])
    ctx.label("mode:" + spec.get("mode", "raw"))
    if spec["conv"] == "ugrid" and spec["geom"].get("invalid"):
        ctx.label("ugrid:bowtie_faces")
        if stored is None:
            ctx.label("ugrid:bowtie_faces+centroid_fallback")
    if hole_before_cell:
        ctx.label("hole_before_cell")
    if dims_not_trailing:
        ctx.label("grid_dims_not_trailing")
    ctx.nontrivial(non_square and (hole_before_cell or dims_not_trailing))


def stored_centres(spec):
    """Per face linear index the centre the dataset stores, or None if it stores none."""
    conv, g = spec["conv"], spec["geom"]
    nan = float("nan")
    if conv == "cf1d":
        return [(x, y) for y in g["lat"] for x in g["lon"]]
    if conv in ("cf2d", "shoc_simple"):
        cx, cy = specs.lattice_centres(g["nodes"], g["holes"])
        return [(float(cx[j, i]), float(cy[j, i])) for j in range(cx.shape[0]) for i in range(cx.shape[1])]
    if conv in ("arakawa", "shoc_standard"):
        cx, cy = specs.lattice_centres(g["nodes"], None)
        return [(float(cx[j, i]), float(cy[j, i])) for j in range(cx.shape[0]) for i in range(cx.shape[1])]
    if conv == "ugrid" and g["enc"].get("face_coords"):
        out = []
        for face in g["faces"]:
            pts = [g["nodes"][k] for k in face]
            if any(p is None for p in pts):
                out.append((nan, nan))
            else:
                out.append((sum(p[0] for p in pts) / len(pts), sum(p[1] for p in pts) / len(pts)))
        return out
    return None


def strategy(tier):
    return S.dataset_spec(max_vars=3, max_extra=2, modes=("raw", "raw", "decoded", "dask", "file"),
                          geom_kwargs={"twist": True})


def mesh_strategy(tier):
    return S.dataset_spec(convs=["ugrid"], max_vars=2, max_extra=1, modes=("raw", "decoded", "dask", "file"))


SUBS = [
    Sub("datasets", strategy, check_spec, quick=400, thorough=1500),
    Sub("meshes", mesh_strategy, check_spec, quick=150, thorough=600),
]
