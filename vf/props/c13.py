"""
C13 - depth normalisation reorients coordinates and data together, idempotently.

Oracle (R-depth): the physical depth of a level is its coordinate value if the coordinate is
positive-down and the negated value otherwise.  Normalisation may only relabel and reorder levels:
after the call the multiset of physical depths is unchanged, the attribute and the ordering are the
requested ones, and for every data variable the slice attached to each physical depth is the slice
that was attached to it before (data codes from the spec).
"""
import itertools
import warnings

import numpy
import xarray
from hypothesis import strategies as st

from vf import refmodel, specs
from vf import strategies as S
from vf.common import import_emsarray
from vf.props import c12
from vf.props._util import same_number
from vf.runner import Sub

PROPERTY = "C13"
RULE = (
    "Datasets of any convention with 1-2 depth coordinates (2-5 monotonic levels, ascending or "
    "descending, positive up / down / attribute missing, with or without bounds, dimension "
    "coordinate or not, coordinate or plain variable) and 1-3 float or integer variables with the "
    "depth dimension in any position x all 9 combinations of positive_down, deep_to_shallow in "
    "{None, True, False} x {one call, the same call twice, the two options in two separate calls} x "
    "{function, accessor}. Non-trivial: sign and order both flip, the coordinate has bounds and a "
    "variable's depth dimension is not leading. Distinct = case hash."
)
ASSUMPTIONS = [
    "depth coordinates are one-dimensional, strictly monotonic, >= 2 levels",
    "when the positive attribute is missing the documented guess applies (more values > 0 than "
    "not => positive down)",
]


def physical(value, positive):
    return value if positive == "down" else -value


def guessed_positive(dc):
    if dc.get("positive") is not None:
        return dc["positive"]
    values = dc["values"]
    return "down" if sum(1 for v in values if v > 0) > len(values) / 2 else "up"


@st.composite
def cases(draw):
    conv = draw(st.sampled_from(S.ALL_CONVS))
    spec = {"conv": conv, "geom": draw(S.geometry(conv, max_n=2, max_j=1, max_i=2,
                                                   allow_bowtie=False))}
    names = c12.DEPTH_NAMES.get(conv, c12.GENERIC_DEPTHS)
    n_depths = draw(st.integers(1, 2))
    depths = []
    for nm, dm in names[:n_depths]:
        if conv not in c12.DEPTH_NAMES and draw(st.booleans()):
            dm = nm                      # dimension coordinate: name == dimension
        dc = draw(c12.depth_coordinate(nm, dm, with_bounds=draw(st.booleans()),
                                       positive=("up", "down", None)))
        if dc["name"] == dc["dim"]:
            dc["as"] = "coord"
        dc["bounds_as"] = draw(st.sampled_from(["var", "coord"]))
        if dc["positive"] is None:
            dc["extra_attrs"] = {"axis": "Z"}
        depths.append(dc)
    if conv not in c12.DEPTH_NAMES and draw(st.integers(0, 2)) == 0:
        # a second coordinate for the same layers on the same dimension: heights above the sea
        # floor datum next to depths, i.e. the negated values with the opposite polarity (or a
        # plain duplicate).  One flip of the shared dimension must serve both.
        first = depths[0]
        if draw(st.booleans()):
            twin_values = [-v for v in first["values"]]
            twin_positive = "up" if guessed_positive(first) == "down" else "down"
        else:
            twin_values, twin_positive = list(first["values"]), guessed_positive(first)
        twin = {"name": "height", "dim": first["dim"], "values": twin_values,
                "positive": twin_positive, "as": draw(st.sampled_from(["coord", "var"]))}
        if first.get("bounds") is not None and draw(st.booleans()):
            sign = -1 if twin_values != list(first["values"]) else 1
            twin["bounds"] = [[sign * a, sign * b] for a, b in first["bounds"]]
            twin["bounds_as"] = draw(st.sampled_from(["var", "coord"]))
        # either of the two may come first in the list of names that is handed over
        depths.insert(draw(st.integers(0, 1)), twin)
    spec["depths"] = depths
    extra = {dc["dim"]: len(dc["values"]) for dc in depths}
    if draw(st.booleans()):
        extra["n"] = 2
    spec["extra"] = extra
    shapes = specs.grid_shapes(spec)
    n_grid = 1 if conv == "ugrid" else 2
    variables = []
    for k in range(draw(st.integers(1, 3))):
        dc = draw(st.sampled_from(depths))
        dims = [dc["dim"]]
        kind = None
        if draw(st.booleans()):
            kind = draw(st.sampled_from(list(shapes)))
            dims += [f"@{q}" for q in range(n_grid)]
        if "n" in extra and draw(st.booleans()):
            dims.append("n")
        variables.append({"name": f"v{k}", "kind": kind, "dims": list(draw(st.permutations(dims))),
                          "dtype": draw(st.sampled_from(["f8", "f4", "i4"])), "fill": None,
                          "depth": dc["name"]})
    spec["vars"] = variables
    spec["mode"] = draw(st.sampled_from(["raw", "decoded", "dask", "file"]))
    spec.update(draw(S.storage_options(conv)))
    return {
        "spec": spec,
        "positive_down": draw(st.sampled_from([None, True, False, True, False])),
        "deep_to_shallow": draw(st.sampled_from([None, True, False, True, False])),
        "how": draw(st.sampled_from(["once", "twice", "two_calls", "two_calls_reversed"])),
        "route": draw(st.sampled_from(["function", "function", "accessor"])),
        "omit_unset": draw(st.booleans()),
        "names_as": draw(st.sampled_from(["list", "list", "tuple", "iterator", "generator",
                                          "data_arrays", "dict_keys"])),
    }


def call(spec, ds, route, pd, d2s, names_as="list", omit_unset=False):
    from emsarray.operations import depth as depth_ops
    options = {"positive_down": pd, "deep_to_shallow": d2s}
    if omit_unset:
        # an option left unset: not passed at all (the documented default is None)
        options = {k: v for k, v in options.items() if v is not None}
    if route == "accessor":
        conv = specs.bind_convention(spec, ds)
        return conv.normalize_depth_variables(**options)
    names = [dc["name"] for dc in spec["depths"]]
    # the parameter is documented as an iterable of names or data arrays: any iterable will do,
    # also one that can be walked only once
    if names_as == "tuple":
        names = tuple(names)
    elif names_as == "iterator":
        names = iter(names)
    elif names_as == "generator":
        names = (n for n in list(names))
    elif names_as == "data_arrays":
        names = [ds[n] for n in names]
    elif names_as == "dict_keys":
        names = dict.fromkeys(names).keys()
    return depth_ops.normalize_depth_variables(ds, names, **options)


def check_case(case, ctx):
    import_emsarray()
    spec = case["spec"]
    pd, d2s = case["positive_down"], case["deep_to_shallow"]
    with warnings.catch_warnings(record=True) as caught:
        warnings.simplefilter("always")
        ds = specs.build(spec)
        snapshot = ds.copy(deep=True)
        snapshot_attrs = {name: dict(v.attrs) for name, v in ds.variables.items()}
        ctx.at("C13.normalize")
        how = case["how"]
        names_as = case.get("names_as", "list")
        omit = bool(case.get("omit_unset"))
        if how == "two_calls":
            out = call(spec, call(spec, ds, case["route"], pd, None, names_as, omit), case["route"], None, d2s, names_as, omit)
        elif how == "two_calls_reversed":
            out = call(spec, call(spec, ds, case["route"], None, d2s, names_as, omit), case["route"], pd, None, names_as, omit)
        else:
            out = call(spec, ds, case["route"], pd, d2s, names_as, omit)
        what = (f"normalize_depth_variables(positive_down={pd}, deep_to_shallow={d2s}) [{how}, "
                f"{case['route']}]")

        # ---- the input dataset is not modified
        ctx.check(ds.identical(snapshot), "C13.input_not_modified",
                  lambda: f"{what}: the input dataset changed: {_diff(ds, snapshot)}")
        for name, attrs in snapshot_attrs.items():
            ctx.check(dict(ds[name].attrs) == attrs, "C13.input_not_modified",
                      lambda: f"{what}: attributes of input variable {name} changed to {dict(ds[name].attrs)}")

        sizes = specs.dim_sizes(spec)
        flips = False
        for dc in spec["depths"]:
            name, zdim = dc["name"], dc["dim"]
            old_pos = guessed_positive(dc)
            old_phys = [physical(v, old_pos) for v in dc["values"]]
            ctx.check(name in out.variables, "C13.coordinate_kept", f"{what}: {name} disappeared")
            new = out[name]
            new_values = [float(v) for v in new.values]
            attr = new.attrs.get("positive")
            # attribute
            if pd is not None:
                want_attr = "down" if pd else "up"
                ctx.check(attr == want_attr, "C13.positive_attribute",
                          lambda: f"{what}: {name}.positive = {attr!r}, requested {want_attr!r}")
                new_pos = want_attr
            else:
                ctx.check(attr == dc.get("positive"), "C13.unset_option_untouched",
                          lambda: f"{what}: positive_down not given but {name}.positive changed from "
                          f"{dc.get('positive')!r} to {attr!r}")
                new_pos = old_pos
            new_phys = [physical(v, new_pos) for v in new_values]
            # same physical levels
            ctx.check(sorted(new_phys) == sorted(old_phys), "C13.values_match_attribute",
                      lambda: f"{what}: {name} values {new_values} positive {new_pos!r} describe "
                      f"depths {new_phys}; before: values {dc['values']} positive {old_pos!r} = {old_phys}")
            if sorted(new_phys) != sorted(old_phys):
                continue
            # ordering
            if d2s is not None:
                want_order = sorted(old_phys, reverse=bool(d2s))
                ctx.check(new_phys == want_order, "C13.ordering",
                          lambda: f"{what}: {name} physical depths in storage order {new_phys}; "
                          f"requested {'deep to shallow' if d2s else 'shallow to deep'}")
            else:
                ctx.check(new_phys == old_phys, "C13.unset_option_untouched",
                          lambda: f"{what}: deep_to_shallow not given but the level order of {name} "
                          f"changed: {old_phys} -> {new_phys}")
            level_of = [old_phys.index(p) for p in new_phys]    # new level r  <- old level q
            if pd is not None and (("down" if pd else "up") != old_pos) and level_of != list(range(len(level_of))):
                flips = True
            # bounds follow the coordinate
            if dc.get("bounds") is not None:
                bname = name + "_bnds"
                ctx.check(bname in out.variables, "C13.bounds_follow", f"{what}: {bname} disappeared")
                got_b = out[bname].values
                for r, q in enumerate(level_of):
                    want_b = sorted(physical(b, old_pos) for b in dc["bounds"][q])
                    have_b = sorted(physical(float(b), new_pos) for b in got_b[r])
                    ctx.check(have_b == want_b, "C13.bounds_follow",
                              lambda: f"{what}: bounds row {r} of {name} = {got_b[r].tolist()} "
                              f"(physical {have_b}); level {q} had {dc['bounds'][q]} (physical {want_b})")
                    lo, hi = sorted(float(b) for b in got_b[r])
                    ctx.check(lo <= new_values[r] <= hi, "C13.bounds_follow",
                              lambda: f"{what}: bounds row {r} {got_b[r].tolist()} does not bracket "
                              f"the level value {new_values[r]}")
            # data stay attached to their physical depth
            for var in spec["vars"]:
                if var.get("depth") != name:
                    continue
                names = specs.var_dim_names(spec, var)
                da = out[var["name"]]
                ctx.check(list(da.dims) == names, "C13.data_follow",
                          lambda: f"{what}: dims of {var['name']} changed: {da.dims} vs {names}")
                values = da.values
                for idx in itertools.product(*(range(sizes[d]) for d in names)):
                    idx_old = dict(zip(names, idx))
                    idx_old[zdim] = level_of[idx_old[zdim]]
                    want = specs.value_of(spec, var, idx_old)
                    ctx.check(same_number(values[idx], want), "C13.data_follow",
                              lambda: f"{what}: {var['name']}{dict(zip(names, idx))} = {values[idx]!r}; "
                              f"the value at that physical depth was {want!r}")
        # ---- options left unset: nothing changes at all
        if pd is None and d2s is None:
            ctx.check(out.identical(snapshot), "C13.unset_option_untouched",
                      lambda: f"{what}: no option given but the dataset changed: {_diff(out, snapshot)}")
        # ---- idempotence
        ctx.at("C13.idempotent")
        again = call(spec, out, case["route"], pd, d2s, names_as, omit)
        ctx.check(again.identical(out), "C13.idempotent",
                  lambda: f"{what}: applying it again changes the dataset: {_diff(again, out)}")
        if how == "twice":
            third = call(spec, again, case["route"], pd, d2s, names_as, omit)
            ctx.check(third.identical(out), "C13.idempotent",
                      lambda: f"{what}: third application changes the dataset")
    # ---- documented warning for a missing positive attribute
    missing = [dc["name"] for dc in spec["depths"] if dc.get("positive") is None]
    if missing:
        texts = [str(w.message) for w in caught]
        for name in missing:
            ctx.check(any(name in t and "positive" in t for t in texts), "C13.missing_positive_warning",
                      lambda: f"{what}: {name} has no positive attribute but no warning mentions it")
    for dc in spec["depths"]:
        ctx.label(f"positive:{dc.get('positive')}")
        ctx.label("bounds" if dc.get("bounds") is not None else "no_bounds")
        ctx.label("dimension_coordinate" if dc["name"] == dc["dim"] else "auxiliary_coordinate")
    if len({dc["dim"] for dc in spec["depths"]}) < len(spec["depths"]):
        ctx.label("two_coordinates_on_one_dimension")
    ctx.label(f"options:{pd}/{d2s}")
    ctx.label("how:" + case["how"])
    if case["route"] == "function":
        ctx.label("names_as:" + case.get("names_as", "list"))
    bounds = any(dc.get("bounds") is not None for dc in spec["depths"])
    not_leading = any(specs.var_dim_names(spec, v)[0] != specs.depth_coordinate_spec(spec, v["depth"])["dim"]
                      for v in spec["vars"])
    ctx.nontrivial(flips and bounds and not_leading)


def _diff(a, b):
    out = []
    for name in sorted(set(a.variables) | set(b.variables), key=str):
        if name not in a.variables or name not in b.variables:
            out.append(f"{name}: present in only one")
        elif not a[name].identical(b[name]):
            out.append(f"{name}: {a[name].values.tolist()} {dict(a[name].attrs)} vs "
                       f"{b[name].values.tolist()} {dict(b[name].attrs)}")
    return "; ".join(out)[:600] or "(attributes / dimension order)"


SUBS = [Sub("normalize", lambda tier: cases(), check_case, quick=300, thorough=2000)]
MATCHERS = {}
