"""
C16 - the geometry cache key depends on the geometry and on nothing else.

Oracle: metamorphic relations.  Every variant is derived from one built dataset so that attribute
objects are shared between the variants (this keeps the known attribute-identity finding, below,
from masking everything else): non-geometry edits must leave the key unchanged, every single
geometry edit must change it, fresh interpreters with different hash seeds must reproduce it, and
equal attributes rebuilt from fresh objects must give the same key.
"""
import copy
import hashlib
import json
import marshal
import os
import subprocess
import sys
import warnings

import numpy
import xarray
from hypothesis import strategies as st

from vf import specs
from vf import strategies as S
from vf.common import REPO, VERIF_DIR, import_emsarray
from vf.props import c05
from vf.runner import Sub

PROPERTY = "C16"
RULE = (
    "Datasets of every convention x non-geometry edits {add / remove a data variable, change "
    "data values, change the number of time steps, add / change global attributes, set an "
    "encoding on a data variable, reorder variables} (key must not change) x single geometry "
    "edits {one value, dtype with equal values, shape with identical bytes, consistent rename, "
    "attribute added / changed / removed, convention subclass} (key must change) x keys "
    "recomputed in fresh interpreters with PYTHONHASHSEED 0, 1 and random x equal attributes "
    "rebuilt from fresh objects. Non-trivial: the case applied >= 3 kinds of geometry edit and "
    ">= 2 non-geometry edits. Distinct = case hash."
)
ASSUMPTIONS = [
    "variants are derived from one built dataset (attribute objects shared), so a difference in "
    "the key is caused by the edit alone",
    "process independence is explored over hash seeds and fresh interpreters on this machine and "
    "Python version only (marshal output is version dependent by design)",
]


def bind(spec, ds, subclass=False):
    import emsarray
    cls = getattr(emsarray.conventions, specs.EXPECTED_CLASS[spec["conv"]])
    if subclass == "name":
        # same module, different class name
        cls = type("Sub" + cls.__name__, (cls,), {"__module__": cls.__module__})
    elif subclass == "module":
        # same class name, different module
        cls = type(cls.__name__, (cls,), {"__module__": cls.__module__ + "_elsewhere"})
    elif subclass:
        cls = type("Sub" + cls.__name__, (cls,), {})
    if spec["conv"] == "arakawa":
        conv = cls(ds, coordinate_names=specs.arakawa_coordinate_names())
    else:
        conv = cls(ds)
    conv.bind()
    return conv


def key_of(spec, ds, subclass=False):
    from emsarray.operations.cache import make_cache_key
    ds = ds.copy(deep=False)        # a fresh, unbound dataset object sharing everything
    with warnings.catch_warnings():
        warnings.simplefilter("ignore")
        bind(spec, ds, subclass=subclass)
        return make_cache_key(ds)


def replace_variable(ds, name, variable, new_name=None):
    """A dataset equal to ds with one variable replaced (and optionally renamed), all other
    variables - and their attribute objects - shared."""
    data_vars, coords = {}, {}
    for key in ds.variables:
        target = coords if key in ds.coords else data_vars
        if key == name:
            target[new_name or name] = variable
        else:
            target[key] = ds.variables[key]
    out = xarray.Dataset(data_vars=data_vars, coords=coords, attrs=ds.attrs)
    return out


def _without_dtype(encoding):
    """The encoding of a variable that was given another dtype: the remembered on-disk dtype
    (which make_cache_key prefers over the in-memory one) no longer describes it."""
    return {k: v for k, v in encoding.items() if k != "dtype"}


def geometry_edits(spec, ds):
    """Yield (label, edited dataset) - each changes exactly one aspect of one geometry variable."""
    names = [n for n in c05.geometry_names(spec) if n in ds.variables]
    conv = spec["conv"]
    numeric = [n for n in names if ds[n].ndim >= 1]
    for name in numeric:
        var = ds.variables[name]
        # one value
        values = var.values.copy()
        flat = values.reshape(-1)
        k = next((q for q in range(flat.size) if not (flat[q] != flat[q])), None)
        if k is not None:
            flat[k] = flat[k] + (1 if values.dtype.kind in "iu" else 0.5)
            yield f"value:{name}", replace_variable(
                ds, name, xarray.Variable(var.dims, values, var.attrs, var.encoding))
        # dtype with equal values
        target = {"f8": "f4", "i4": "i8", "i8": "i4", "i2": "i4"}.get(var.dtype.str[1:])
        if target is not None:
            cast = var.values.astype(target)
            if numpy.array_equal(cast.astype(var.dtype), var.values, equal_nan=True):
                yield f"dtype:{name}", replace_variable(
                    ds, name, xarray.Variable(var.dims, cast, var.attrs, _without_dtype(var.encoding)))
    # dtype with identical bytes: the same buffer read as integers instead of floats
    for name in numeric:
        var = ds.variables[name]
        target = {"f8": "i8", "f4": "i4", "i8": "f8", "i4": "f4"}.get(var.dtype.str[1:])
        # (only for variables without a remembered on-disk dtype: make_cache_key hashes that
        # name in preference to the in-memory one, so a decoded float table and its bytes read as
        # the on-disk integer type are indistinguishable by construction - an artificial edit)
        if target is not None and "dtype" not in var.encoding:
            view = numpy.ascontiguousarray(var.values).view(target)
            yield f"dtype_same_bytes:{name}", replace_variable(
                ds, name, xarray.Variable(var.dims, view, var.attrs, _without_dtype(var.encoding)))
            break
    # shape with identical bytes: 2-D coordinates of a non-square grid without bounds
    if (conv in ("cf2d", "shoc_simple") and not spec["geom"]["bounds"]
            and not spec["geom"].get("bad_bounds") and not spec.get("dim_coords")):
        n = spec["geom"]["names"]
        lat, lon = ds.variables[n["lat"]], ds.variables[n["lon"]]
        if lat.shape[0] != lat.shape[1] and not ds.data_vars.keys() - {n["lat"], n["lon"]}:
            shape = lat.shape[::-1]
            out = ds
            for nm, var in ((n["lat"], lat), (n["lon"], lon)):
                out = None if out is None else out
            data_vars, coords = {}, {}
            for key in ds.variables:
                target = coords if key in ds.coords else data_vars
                var = ds.variables[key]
                if key in (n["lat"], n["lon"]):
                    var = xarray.Variable(var.dims, numpy.ascontiguousarray(var.values).reshape(shape),
                                          var.attrs, var.encoding)
                target[key] = var
            yield "shape:lat+lon", xarray.Dataset(data_vars=data_vars, coords=coords, attrs=ds.attrs)
    # consistent rename (conventions whose variable names are free)
    if conv in ("cf1d", "cf2d"):
        n = spec["geom"]["names"]
        if n["lat"] not in ds.dims:
            yield f"rename:{n['lat']}", replace_variable(ds, n["lat"], ds.variables[n["lat"]],
                                                         new_name=n["lat"] + "_renamed")
    # attributes of a geometry variable: add, change, remove
    for name in names[:2]:
        var = ds.variables[name]
        attrs = dict(var.attrs)
        attrs["comment"] = "added"
        yield f"attr_add:{name}", replace_variable(
            ds, name, xarray.Variable(var.dims, var.values, attrs, var.encoding))
        if "long_name" in var.attrs:
            attrs = dict(var.attrs)
            attrs["long_name"] = str(attrs["long_name"]) + " (changed)"
            yield f"attr_change:{name}", replace_variable(
                ds, name, xarray.Variable(var.dims, var.values, attrs, var.encoding))
            attrs = {k: v for k, v in var.attrs.items() if k != "long_name"}
            yield f"attr_remove:{name}", replace_variable(
                ds, name, xarray.Variable(var.dims, var.values, attrs, var.encoding))


    # attributes whose names start with an underscore are attributes like any other
    for name in names[:2]:
        var = ds.variables[name]
        attrs = dict(var.attrs)
        attrs["_CoordinateAxisType"] = "GeoX"
        yield f"attr_add_underscore:{name}", replace_variable(
            ds, name, xarray.Variable(var.dims, var.values, attrs, var.encoding))
    for name in names:
        var = ds.variables[name]
        hidden = [k for k in var.attrs if str(k).startswith("_")]
        if hidden and var.dtype.kind in "iu":
            attrs = dict(var.attrs)
            old_value = int(attrs[hidden[0]])
            attrs[hidden[0]] = var.dtype.type(old_value - 7 if old_value >= 7 else old_value + 7)
            yield f"attr_change_underscore:{name}", replace_variable(
                ds, name, xarray.Variable(var.dims, var.values, attrs, var.encoding))
            break


def non_geometry_edits(spec, ds):
    data_names = [v["name"] for v in spec["vars"] if v["name"] in ds.data_vars]
    some_dim = next(iter(ds.dims))
    yield "add_variable", ds.assign(extra_variable=((some_dim,), numpy.arange(ds.sizes[some_dim]) * 1.5))
    if data_names:
        yield "remove_variable", ds.drop_vars(data_names[0])
        name = data_names[-1]
        yield "change_values", ds.assign({name: ds[name] * 0 + 7 if ds[name].dtype.kind == "f" else ds[name] + 1})
        edited = ds.copy(deep=False)
        edited[name].encoding["dtype"] = "float32"
        edited[name].encoding["zlib"] = True
        yield "data_encoding", edited
    attrs = dict(ds.attrs)
    attrs["history"] = "edited"
    attrs["title"] = "another title"
    out = ds.copy(deep=False)
    out.attrs = attrs
    yield "global_attributes", out
    for extra_dim in ("time", "tstep", "depth"):
        if extra_dim in ds.dims and ds.sizes[extra_dim] > 1:
            yield "fewer_time_steps", ds.isel({extra_dim: slice(0, 1)})
            break
    for name in c05.geometry_names(spec):
        if name in ds.variables and ds[name].ndim >= 2 and min(ds[name].shape) > 1:
            var = ds.variables[name]
            yield "memory_layout", replace_variable(
                ds, name, xarray.Variable(var.dims, numpy.asfortranarray(var.values), var.attrs, var.encoding))
            break
    for name in c05.geometry_names(spec):
        if name in ds.variables and ds[name].ndim >= 1 and "dtype" not in ds[name].encoding:
            # the on-disk type requested as a string (how the xarray documentation writes
            # encodings), naming the very type the values already have
            edited = ds.copy(deep=False)
            edited[name].encoding["dtype"] = str(ds[name].dtype)
            yield "encoding_dtype_given_as_string", edited
            break
    order = list(ds.data_vars)[::-1]
    yield "variable_order", xarray.Dataset(
        data_vars={k: ds.variables[k] for k in order},
        coords={k: ds.variables[k] for k in ds.coords}, attrs=ds.attrs)


def check_spec(spec, ctx):
    import_emsarray()
    spec = dict(spec, decoy_latlon=False)      # (keys are made on auto-detected conventions here)
    with warnings.catch_warnings():
        warnings.simplefilter("ignore")
        ds = specs.build(spec)
        ctx.at("C16.key")
        base = key_of(spec, ds)
        ctx.check(isinstance(base, str) and len(base) >= 32 and all(c in "0123456789abcdef" for c in base),
                  "C16.key_is_hex", lambda: f"cache key {base!r} is not a filename-safe hex string")
        ctx.check(key_of(spec, ds) == base, "C16.repeatable", "second computation gives another key")

        n_non = 0
        for label, edited in non_geometry_edits(spec, ds):
            ctx.at("C16.invariance")
            got = key_of(spec, edited)
            n_non += 1
            ctx.label("non_geometry:" + label)
            ctx.check(got == base, "C16.invariance",
                      lambda: f"non-geometry edit {label!r} changed the key of a {spec['conv']} dataset",
                      kind="invariance", spec=spec, label=label)
        kinds = set()
        for label, edited in geometry_edits(spec, ds):
            ctx.at("C16.sensitivity")
            got = key_of(spec, edited)
            kinds.add(label.split(":")[0])
            ctx.label("geometry:" + label.split(":")[0])
            ctx.check(got != base, "C16.sensitivity",
                      lambda: f"geometry edit {label!r} did not change the key of a {spec['conv']} dataset")
        if spec["conv"] in ("cf1d", "cf2d"):
            # two different names that merely LOOK alike (the same letters in composed and in
            # decomposed unicode form, a superscript digit and the plain digit) are two names
            n = spec["geom"]["names"]
            if n["lat"] not in ds.dims:
                var = ds.variables[n["lat"]]
                for tag, (one, two) in {"composed_vs_decomposed": ("\u00e9", "e\u0301"),
                                        "superscript_vs_digit": ("\u00b2", "2")}.items():
                    a = replace_variable(ds, n["lat"], var, new_name=n["lat"] + one)
                    b = replace_variable(ds, n["lat"], var, new_name=n["lat"] + two)
                    ctx.check(key_of(spec, a) != key_of(spec, b), "C16.sensitivity",
                              lambda: f"geometry variable named {n['lat'] + one!r} in one dataset and "
                              f"{n['lat'] + two!r} in the other ({tag}): same key")
                kinds.add("unicode_names")
        for how in ("name", "module"):
            got = key_of(spec, ds, subclass=how)
            ctx.check(got != base, "C16.sensitivity",
                      f"a convention class differing only in its {how} did not change the key "
                      f"({spec['conv']})")
        kinds.add("convention")

        # ---- history on ONE dataset object: key, edit a geometry variable in place, key again.
        # The key is a function of what the dataset holds now, not of what it held when it was
        # first asked.
        from emsarray.operations.cache import make_cache_key
        work = ds.copy(deep=True).load()      # in memory: the edits below must write through
        bind(spec, work)
        ctx.at("C16.in_place_history")
        previous = make_cache_key(work)
        names = [n for n in c05.geometry_names(spec) if n in work.variables and work[n].ndim >= 1]
        for name in names[:3]:
            values = work.variables[name].values
            flat = values.reshape(-1)
            k = next((q for q in range(flat.size) if not (flat[q] != flat[q])), None)
            if k is None or not values.flags.writeable or not numpy.shares_memory(flat, values):
                continue
            flat[k] = flat[k] + (1 if values.dtype.kind in "iu" else 0.5)
            if work.variables[name].values.reshape(-1)[k] != flat[k]:
                continue        # (not a view of the variable's own memory after all)
            # (both keys are made while both dataset objects exist, so that the attribute
            # objects are shared to the same degree - see the attribute-identity finding)
            twin = work.copy(deep=False)
            bind(spec, twin)
            now = make_cache_key(work)
            ctx.check(now != previous, "C16.in_place_history",
                      lambda: f"a value of geometry variable {name} was changed in place after a key "
                      f"had been made: the same dataset object still reports the old key ({spec['conv']})")
            ctx.check(make_cache_key(twin) == now, "C16.in_place_history",
                      lambda: f"after an in-place edit of {name} the dataset's key differs from the key "
                      f"of a new dataset object holding the very same variables ({spec['conv']})")
            previous = now
            work.variables[name].attrs["edited_in_place"] = "yes"
            now = make_cache_key(work)
            ctx.check(now != previous, "C16.in_place_history",
                      lambda: f"an attribute was added in place to geometry variable {name} after a "
                      f"key had been made: the old key is still reported ({spec['conv']})")
            previous = now
            ctx.label("in_place_history")
    ctx.label("conv:" + spec["conv"])
    ctx.nontrivial(len(kinds) >= 3 and n_non >= 2)


# ---- equal attributes, different objects (the attribute-identity finding) ----------------------

def fresh_attrs(attrs):
    """An equal attribute dict made of fresh objects (no sharing with anything else)."""
    out = {}
    for key, value in attrs.items():
        key2 = "".join(list(key))
        if isinstance(value, str):
            out[key2] = "".join(list(value))
        else:
            out[key2] = copy.deepcopy(value)
    return out


def rebuilt_with_fresh_attributes(spec, ds):
    names = [n for n in c05.geometry_names(spec) if n in ds.variables]
    data_vars, coords = {}, {}
    for key in ds.variables:
        target = coords if key in ds.coords else data_vars
        var = ds.variables[key]
        if key in names:
            var = xarray.Variable(var.dims, var.values, fresh_attrs(var.attrs), var.encoding)
        target[key] = var
    return xarray.Dataset(data_vars=data_vars, coords=coords, attrs=ds.attrs), names


def check_attribute_identity(spec, ctx):
    spec = dict(spec, decoy_latlon=False)
    import_emsarray()
    with warnings.catch_warnings():
        warnings.simplefilter("ignore")
        ds = specs.build(spec)
        other, names = rebuilt_with_fresh_attributes(spec, ds)
        for name in names:
            if dict(ds[name].attrs) != dict(other[name].attrs):
                return     # (attribute values that do not compare equal, e.g. NaN)
        ctx.at("C16.equal_attributes_equal_key")
        a, b = key_of(spec, ds), key_of(spec, other)
    ctx.check(a == b, "C16.equal_attributes_equal_key",
              lambda: f"two {spec['conv']} datasets with equal geometry variables (attribute dicts "
              f"compare equal, built from different string objects) get different keys",
              kind="attribute_identity", spec=spec)
    ctx.nontrivial(True)


def matcher_attribute_identity(case, info):
    """The listed finding, exactly: the two datasets' geometry attributes compare equal, their
    marshal serialisations differ, and with an identity-free serialisation of the attributes the
    two keys are equal."""
    spec = info.get("spec")
    if spec is None or info.get("kind") != "attribute_identity":
        return False
    import emsarray.conventions._base as base_module
    from emsarray.operations import cache
    with warnings.catch_warnings():
        warnings.simplefilter("ignore")
        ds = specs.build(spec)
        other, names = rebuilt_with_fresh_attributes(spec, ds)
        differs = False
        for name in names:
            if dict(ds[name].attrs) != dict(other[name].attrs):
                return False
            if marshal.dumps(dict(ds[name].attrs), 4) != marshal.dumps(dict(other[name].attrs), 4):
                differs = True
        if not differs:
            return False

        def canonical(hash, attributes):
            blob = json.dumps({str(k): repr(v) for k, v in attributes.items()}, sort_keys=True)
            hash.update(blob.encode())
        saved = base_module.hash_attributes
        base_module.hash_attributes = canonical
        try:
            same = key_of(spec, ds) == key_of(spec, other)
        finally:
            base_module.hash_attributes = saved
    return same


# ---- fresh interpreters ----------------------------------------------------------------------------

CHILD = r"""
import json, sys, warnings
sys.path.insert(0, %(verif)r)
warnings.simplefilter("ignore")
from vf.common import import_emsarray
import_emsarray()
import xarray
from vf.props import c16
out = []
for spec, path in json.load(sys.stdin):
    with xarray.open_dataset(path) as ds:
        ds.load()
    out.append(c16.key_of(spec, ds))
print("KEYS " + json.dumps(out))
"""


def check_processes(case, ctx):
    """The same files opened in this process and in fresh interpreters with other hash seeds.
    (Datasets are read from disk in every process, the way an application uses the key; what
    happens with attribute objects of differing identity is the attribute_identity clause.)"""
    import_emsarray()
    batch = case["specs"]
    with specs.scratch_dir() as tmp, warnings.catch_warnings():
        warnings.simplefilter("ignore")
        jobs = []
        parent = []
        for k, spec in enumerate(batch):
            path = os.path.join(tmp, f"case{k}.nc")
            specs.build_raw(spec).to_netcdf(path)
            with xarray.open_dataset(path) as ds:
                ds.load()
            parent.append(key_of(spec, ds))
            with xarray.open_dataset(path) as ds:
                ds.load()
            ctx.check(key_of(spec, ds) == parent[-1], "C16.repeatable",
                      f"{spec['conv']}: the same file opened twice gives two keys")
            jobs.append([spec, path])
        for seed in case["hash_seeds"]:
            env = dict(os.environ, PYTHONHASHSEED=str(seed), VERIF_REPO=REPO)
            proc = subprocess.run([sys.executable, "-c", CHILD % {"verif": VERIF_DIR}],
                                  input=json.dumps(jobs), capture_output=True, text=True, env=env,
                                  timeout=300)
            line = next((l for l in proc.stdout.splitlines() if l.startswith("KEYS ")), None)
            if line is None:
                from vf.common import HarnessError
                raise HarnessError(f"child interpreter failed: {proc.stderr[-800:]}")
            child = json.loads(line[5:])
            for k, (a, b) in enumerate(zip(parent, child)):
                ctx.check(a == b, "C16.process_independent",
                          lambda: f"{batch[k]['conv']} dataset file: key {a} in this process, {b} in a "
                          f"fresh interpreter with PYTHONHASHSEED={seed}")
    ctx.label(f"hash_seeds:{len(case['hash_seeds'])}")
    ctx.nontrivial(True)


SPEC = S.dataset_spec(max_vars=2, max_extra=1, modes=("raw", "raw", "decoded", "file", "dask"), geom_kwargs={"max_n": 3, "max_j": 2, "max_i": 2})
@st.composite
def mesh_spec(draw):
    # (any subset of the optional tables, also edge tables without the edge-node table)
    enc = draw(S.ugrid_encoding(require_edge_node=draw(st.booleans())))
    if draw(st.integers(0, 3)) == 0:
        # the edge grid known only through the edge-face table, while the mesh variable still
        # names an edge-node table that is gone
        enc["supply"] = [t for t in enc["supply"] if t not in ("edge_node", "face_edge")]
        if "edge_face" not in enc["supply"]:
            enc["supply"].append("edge_face")
        enc["transposed"] = [t for t in enc["transposed"] if t in enc["supply"] or t == "face_node"]
        enc["dangling"] = sorted(set(enc["dangling"]) | {"edge_node"})
        enc["edge_dim_attr"] = False
    if "face_edge" in enc["supply"] and not (enc["edge_dim_attr"] or "edge_node" in enc["supply"]
                                             or "edge_face" in enc["supply"]):
        # a face-edge table whose edge numbers refer to nothing (no edge dimension at all) is
        # not a mesh emsarray claims to read: declare the dimension
        enc["edge_dim_attr"] = True
        enc["edge_coords"] = True
    return draw(S.dataset_spec(convs=["ugrid"], max_vars=2, max_extra=2, modes=("raw", "raw", "decoded"),
                               geom_kwargs={"max_j": 2, "max_i": 2, "enc": enc}))


MESH_SPEC = mesh_spec()
BARE_SPEC = S.dataset_spec(with_vars=False, modes=("raw",), geom_kwargs={"max_n": 3, "max_j": 2, "max_i": 2, "holes": False})


@st.composite
def process_cases(draw):
    return {"specs": draw(st.lists(SPEC, min_size=4, max_size=6)),
            "hash_seeds": ["0", "1", str(draw(st.integers(2, 4000000)))]}


SUBS = [
    Sub("edits", lambda tier: SPEC, check_spec, quick=120, thorough=600),
    Sub("edits_bare", lambda tier: BARE_SPEC, check_spec, quick=60, thorough=300),
    Sub("edits_meshes", lambda tier: MESH_SPEC, check_spec, quick=80, thorough=400),
    Sub("attribute_identity", lambda tier: SPEC, check_attribute_identity, quick=30, thorough=200),
    Sub("fresh_interpreters", lambda tier: process_cases(), check_processes, quick=2, thorough=8,
        shrink=False),
]
MATCHERS = {"attribute_identity": matcher_attribute_identity}
