"""
C07 - clip masks select exactly the intersecting cells plus the requested buffer.

Oracles (vf.refmodel, R-mask): brute-force scan for the base set, brute-force Chebyshev dilation
for grid buffers, incidence definition for left/back/node masks, node-sharing closure ring by ring
on meshes, contiguous renumbering in ascending original order.  The ring-growing and
edge/node-marking primitives are enumerated exhaustively over every boolean array up to 4x4.
"""
import itertools
import math

import numpy
import shapely
from hypothesis import strategies as st
from shapely.geometry import LineString, Point, box

from vf import refmodel, specs
from vf import strategies as S
from vf.common import import_emsarray
from vf.props import c04
from vf.props._util import open_case
from vf.runner import Enum, Sub

PROPERTY = "C07"
RULE = (
    "(i) datasets of every convention x clip geometries derived from the case's own cells (a "
    "cell's own polygon, boxes around cell groups, a box strictly inside one cell, a box touching "
    "one corner only, everything, points, lines, multi-part unions) x buffer 0..3, plus the "
    "metamorphic relations mask(g1) <= mask(g1 u g2) and mask(g, b) <= mask(g, b+1); non-trivial: "
    "the base set is a proper non-empty subset and (touches the array border or buffer >= 2). "
    "(ii) every boolean array of every shape up to 4x4 x blur sizes 0..3, the three smear "
    "patterns and c_mask_from_centres (exhaustive in the thorough tier; quick: everything below "
    "4x4 plus a stride sample of 4x4). (iii) buffer_faces / mask_from_face_indexes on every "
    "face subset of generated meshes with <= 8 faces."
)
ASSUMPTIONS = [
    "clip geometries are valid shapely geometries with dyadic coordinates",
    "mask_from_face_indexes is given face indexes in ascending order (what buffer_faces returns)",
]


# ---- clip geometries ------------------------------------------------------------------------

def make_geometry(sel, rings, hole_rings, bbox):
    live = [r for r in rings if r is not None]
    minx, miny, maxx, maxy = bbox
    t = sel["type"]
    if t == "cell":
        return shapely.Polygon(live[sel["cell"] % len(live)])
    if t == "bbox":
        pts = [p for c in sel["cells"] for p in live[c % len(live)]]
        xs, ys = [p[0] for p in pts], [p[1] for p in pts]
        return box(min(xs), min(ys), max(xs), max(ys))
    if t == "inside":
        ring = live[sel["cell"] % len(live)]
        cx = sum(p[0] for p in ring) / len(ring)
        cy = sum(p[1] for p in ring) / len(ring)
        span = max(maxx - minx, maxy - miny)
        h = span / 4096
        return box(cx - h, cy - h, cx + h, cy + h)
    if t == "corner_touch":
        ring = live[sel["cell"] % len(live)]
        corner = ring[sel["a"] % len(ring)]
        cx = sum(p[0] for p in ring) / len(ring)
        cy = sum(p[1] for p in ring) / len(ring)
        span = max(maxx - minx, maxy - miny, 1.0)
        dx = span if corner[0] >= cx else -span
        dy = span if corner[1] >= cy else -span
        return box(min(corner[0], corner[0] + dx), min(corner[1], corner[1] + dy),
                   max(corner[0], corner[0] + dx), max(corner[1], corner[1] + dy))
    if t == "all":
        return box(minx - 1, miny - 1, maxx + 1, maxy + 1)
    if t == "border":
        # a thin box hugging one side of the array's bounding box
        side = sel["a"] % 4
        eps = max(maxx - minx, maxy - miny, 1.0) / 1024
        if side == 0:
            return box(minx - 1, miny - 1, minx + eps, maxy + 1)
        if side == 1:
            return box(maxx - eps, miny - 1, maxx + 1, maxy + 1)
        if side == 2:
            return box(minx - 1, miny - 1, maxx + 1, miny + eps)
        return box(minx - 1, maxy - eps, maxx + 1, maxy + 1)
    if t == "point":
        xy = c04.make_point(sel["p"], rings, hole_rings, bbox)
        return None if xy is None else Point(xy)
    if t == "line":
        a = c04.make_point(sel["p"], rings, hole_rings, bbox)
        b = c04.make_point(sel["q"], rings, hole_rings, bbox)
        if a is None or b is None or a == b:
            return None
        return LineString([a, b])
    if t == "multi":
        parts = [make_geometry(p, rings, hole_rings, bbox) for p in sel["parts"]]
        parts = [p for p in parts if p is not None]
        if not parts:
            return None
        return shapely.union_all(parts)
    raise ValueError(t)


SIMPLE_GEOM = st.one_of(
    st.fixed_dictionaries({"type": st.just("cell"), "cell": st.integers(0, 63)}),
    st.fixed_dictionaries({"type": st.just("bbox"),
                           "cells": st.lists(st.integers(0, 63), min_size=1, max_size=3)}),
    st.fixed_dictionaries({"type": st.just("inside"), "cell": st.integers(0, 63)}),
    st.fixed_dictionaries({"type": st.just("corner_touch"), "cell": st.integers(0, 63),
                           "a": st.integers(0, 7)}),
    st.fixed_dictionaries({"type": st.just("border"), "a": st.integers(0, 3)}),
    st.fixed_dictionaries({"type": st.just("all")}),
    st.fixed_dictionaries({"type": st.just("point"), "p": c04.POINT}),
    st.fixed_dictionaries({"type": st.just("line"), "p": c04.POINT, "q": c04.POINT}),
)
_CELL = st.fixed_dictionaries({"type": st.just("cell"), "cell": st.integers(0, 63)})
# "scattered": a few single cells - the selection is then rarely a rectangle, so its bounding
# window contains cells that must be blanked
GEOM = st.one_of(SIMPLE_GEOM, SIMPLE_GEOM, st.fixed_dictionaries({
    "type": st.just("multi"), "parts": st.lists(SIMPLE_GEOM, min_size=2, max_size=3)}),
    st.fixed_dictionaries({"type": st.just("multi"), "parts": st.lists(_CELL, min_size=2, max_size=3)}))


# ---- reading masks --------------------------------------------------------------------------

def grid_mask_rows(mask_ds, name, shape, dims):
    da = mask_ds[name]
    if tuple(da.dims) != tuple(dims) or da.shape != tuple(shape):
        return None
    return [[bool(v) for v in row] for row in da.values]


def expected_grid_mask(spec, base, buffer):
    nj, ni = specs.grid_shapes(spec)["face"]
    rows = [[(j * ni + i) in base for i in range(ni)] for j in range(nj)]
    return refmodel.chebyshev_dilate(rows, buffer) if buffer > 0 else rows


def expected_mesh_faces(spec, base, buffer):
    faces = spec["geom"]["faces"]
    selected = sorted(base)
    for _ in range(buffer):
        selected = refmodel.mesh_node_ring(faces, set(selected))
    return selected


def renumbering(values, size):
    """Decode a new_*_index variable: list of new index or None per old element."""
    out = []
    for v in values:
        out.append(None if (isinstance(v, float) and math.isnan(v)) or v is numpy.ma.masked
                   else int(v))
    return out if len(out) == size else None


def check_renumbering(ctx, clause, what, values, size, kept):
    decoded = renumbering(list(values), size)
    ctx.check(decoded is not None, clause, lambda: f"{what}: {len(values)} entries for {size} elements")
    want = [None] * size
    for rank, old in enumerate(sorted(kept)):
        want[old] = rank
    ctx.check(decoded == want, clause,
              lambda: f"{what} = {decoded}; expected the kept elements {sorted(kept)} numbered "
              f"0..{len(kept) - 1} in original order: {want}")


# ---- (i) datasets ---------------------------------------------------------------------------

def evaluate_mask(ctx, spec, conv, polygons, geom, buffer, label):
    """Run make_clip_mask, compare with the reference, return the set of marked faces."""
    n_faces = refmodel.grid_size(spec, "face")
    base = {n for n in range(n_faces) if polygons[n] is not None and polygons[n].intersects(geom)}
    ctx.at("C07.make_clip_mask")
    mask = conv.make_clip_mask(geom, buffer=buffer)
    what = f"make_clip_mask({geom.wkt[:120]}, buffer={buffer}) [{label}]"
    convn = spec["conv"]
    gd = specs.grid_dims(spec)
    shapes = specs.grid_shapes(spec)
    if convn in ("cf1d", "cf2d", "shoc_simple", "arakawa", "shoc_standard"):
        want = expected_grid_mask(spec, base, buffer)
        name = "cell_mask" if convn in ("cf1d", "cf2d", "shoc_simple") else "face_mask"
        got = grid_mask_rows(mask, name, shapes["face"], gd["face"])
        ctx.check(got is not None, "C07.grid_mask",
                  lambda: f"{what}: {name} has dims {mask[name].dims} shape {mask[name].shape}")
        ctx.check(got == want, "C07.grid_mask",
                  lambda: f"{what}: {name} =\n{_show(got)}\nexpected (cells {sorted(base)} grown by "
                  f"{buffer})\n{_show(want)}")
        if convn in ("arakawa", "shoc_standard"):
            left, back, node = refmodel.c_grid_masks(want)
            for kind, rows in (("left", left), ("back", back), ("node", node)):
                got_k = grid_mask_rows(mask, kind + "_mask", shapes[kind], gd[kind])
                ctx.check(got_k == rows, "C07.c_grid_incidence",
                          lambda: f"{what}: {kind}_mask =\n{_show(got_k)}\nexpected\n{_show(rows)}")
        nj, ni = shapes["face"]
        marked = {j * ni + i for j in range(nj) for i in range(ni) if want[j][i]}
        return base, marked
    # mesh
    g = spec["geom"]
    faces = g["faces"]
    kept = expected_mesh_faces(spec, base, buffer)
    ctx.check("new_face_index" in mask and "new_node_index" in mask, "C07.mesh_mask",
              lambda: f"{what}: mask variables {list(mask.data_vars)}")
    check_renumbering(ctx, "C07.mesh_faces", f"{what}: new_face_index",
                      mask["new_face_index"].values, len(faces), kept)
    nodes = sorted({k for f in kept for k in faces[f]})
    check_renumbering(ctx, "C07.mesh_nodes", f"{what}: new_node_index",
                      mask["new_node_index"].values, len(g["nodes"]), nodes)
    has_edges = specs.ugrid_has_edge_dim(g)
    ctx.check(("new_edge_index" in mask) == has_edges, "C07.mesh_edges",
              lambda: f"{what}: new_edge_index present={('new_edge_index' in mask)} but the mesh "
              f"{'has' if has_edges else 'has no'} edge dimension")
    if has_edges:
        want_pairs = set()
        for f in kept:
            ring = faces[f]
            for c in range(len(ring)):
                a, b = ring[c], ring[(c + 1) % len(ring)]
                want_pairs.add((min(a, b), max(a, b)))
        ctx.at("C07.mesh_edges")
        edge_node = conv.topology.edge_node_array
        pair_of = [tuple(sorted(int(v) for v in row)) for row in numpy.ma.getdata(edge_node)]
        kept_edges = [e for e, pair in enumerate(pair_of) if pair in want_pairs]
        check_renumbering(ctx, "C07.mesh_edges", f"{what}: new_edge_index",
                          mask["new_edge_index"].values, len(pair_of), kept_edges)
    return base, set(kept)


def _show(rows):
    if rows is None:
        return "None"
    return "\n".join("".join("#" if v else "." for v in row) for row in rows)


def check_case(case, ctx):
    spec = case["spec"]
    ds, conv = open_case(spec)
    polygons, cells, defined, rings, hole_rings, bbox = c04.case_geometry(spec, conv)
    if bbox is None:
        ctx.label("no_geometry_at_all")
        return
    n_faces = refmodel.grid_size(spec, "face")
    shapes = specs.grid_shapes(spec)
    nontrivial = False
    for req in case["clips"]:
        g1 = make_geometry(req["g1"], rings, hole_rings, bbox)
        if g1 is None or g1.is_empty:
            continue
        buffer = req["buffer"]
        base, marked = evaluate_mask(ctx, spec, conv, polygons, g1, buffer, req["g1"]["type"])
        ctx.label("geom:" + req["g1"]["type"])
        ctx.label(f"buffer:{buffer}")
        proper = 0 < len(base) < n_faces
        if proper and (buffer >= 2 or _touches_border(spec, base)):
            nontrivial = True
        # metamorphic: more buffer never unmarks
        if req["grow"] and buffer < 3:
            _, marked_more = evaluate_mask(ctx, spec, conv, polygons, g1, buffer + 1, "grown buffer")
            ctx.check(marked <= marked_more, "C07.monotone_buffer",
                      lambda: f"buffer {buffer}->{buffer + 1} unmarked cells {sorted(marked - marked_more)}")
        g2 = make_geometry(req["g2"], rings, hole_rings, bbox)
        sound = lambda g: g.is_valid and not (g.geom_type == "LineString" and g.length == 0)  # noqa: E731
        if g2 is not None and not g2.is_empty and sound(g1) and sound(g2):
            # the enlarged geometry: g1 grown by a hair, joined with g2.  (A plain union of g1
            # and g2 does not contain g1 exactly: GEOS nodes crossing lines and rounds the new
            # vertices, so a line that touches a cell in a single point may miss it afterwards.
            # The margin is far above rounding and far below any cell size.)
            margin = 1e-7 * max(bbox[2] - bbox[0], bbox[3] - bbox[1], 1.0)
            union = shapely.union_all([g1.buffer(margin), g2])
            _, marked_union = evaluate_mask(ctx, spec, conv, polygons, union, buffer, "union")
            ctx.check(marked <= marked_union, "C07.monotone_geometry",
                      lambda: f"enlarging the geometry unmarked cells {sorted(marked - marked_union)}")
    ctx.label("conv:" + spec["conv"])
    ctx.nontrivial(nontrivial)


def _touches_border(spec, base):
    if spec["conv"] == "ugrid":
        return True
    nj, ni = specs.grid_shapes(spec)["face"]
    return any(n // ni in (0, nj - 1) or n % ni in (0, ni - 1) for n in base)


@st.composite
def cases(draw, convs=S.ALL_CONVS):
    spec = draw(S.dataset_spec(convs=convs, with_vars=False, modes=("raw",),
                               geom_kwargs={"max_n": 6, "allow_bowtie": True}))
    clips = draw(st.lists(st.fixed_dictionaries({
        "g1": GEOM, "g2": SIMPLE_GEOM, "buffer": st.sampled_from([0, 0, 1, 1, 2, 3]),
        "grow": st.booleans()}), min_size=1, max_size=3))
    return {"spec": spec, "clips": clips}


def strategy(tier):
    return cases()


def mesh_strategy(tier):
    return cases(convs=["ugrid"])


# ---- (ii) exhaustive primitives ---------------------------------------------------------------

def primitive_cases(tier):
    for h in range(1, 5):
        for w in range(1, 5):
            n = h * w
            if h == 4 and w == 4 and tier != "thorough":
                seed_stride = 37
                for bits in range(0, 1 << n, seed_stride):
                    yield [h, w, bits]
                continue
            for bits in range(1 << n):
                yield [h, w, bits]


def check_primitive(case, ctx):
    import_emsarray()
    from emsarray import masking
    from emsarray.conventions.arakawa_c import ArakawaCGridKind, c_mask_from_centres
    h, w, bits = case
    rows = [[bool((bits >> (j * w + i)) & 1) for i in range(w)] for j in range(h)]
    arr = numpy.array(rows, dtype=bool)
    # the same boolean array held row-major and column-major: a mask is its values, not its strides
    layouts = (("C", arr), ("F", numpy.asfortranarray(arr)))
    for size in range(0, 4):
        want = refmodel.chebyshev_dilate(rows, size)
        for layout, held in layouts:
            ctx.at("C07.blur_mask")
            got = masking.blur_mask(held.copy(order="K"), size=size)
            ctx.check(got.shape == arr.shape and got.dtype == arr.dtype and got.tolist() == want,
                      "C07.blur_mask",
                      lambda: f"blur_mask(\n{_show(rows)}\n, size={size}) [{layout}-ordered input] =\n"
                      f"{_show(got.tolist())}\nexpected\n{_show(want)}",
                      layout=layout)
    left, back, node = refmodel.c_grid_masks(rows)
    for pad, want in (([False, True], left), ([True, False], back), ([True, True], node)):
        for layout, held in layouts:
            ctx.at("C07.smear_mask")
            got = masking.smear_mask(held.copy(order="K"), pad)
            ctx.check(got.tolist() == want, "C07.smear_mask",
                      lambda: f"smear_mask(\n{_show(rows)}\n, {pad}) [{layout}-ordered input] =\n"
                      f"{_show(got.tolist())}\nexpected\n{_show(want)}")
    ctx.at("C07.c_mask_from_centres")
    dims = {ArakawaCGridKind.face: ("fj", "fi"), ArakawaCGridKind.left: ("lj", "li"),
            ArakawaCGridKind.back: ("bj", "bi"), ArakawaCGridKind.node: ("nj", "ni")}
    full = c_mask_from_centres(arr.copy(), dims)
    for name, want in (("face_mask", rows), ("left_mask", left), ("back_mask", back),
                       ("node_mask", node)):
        got = full[name].values.tolist()
        ctx.check(got == want, "C07.c_mask_from_centres",
                  lambda: f"c_mask_from_centres(\n{_show(rows)}\n).{name} =\n{_show(got)}\nexpected\n{_show(want)}")
    ctx.nontrivial(0 < bits < (1 << (h * w)) - 1)


# ---- (iii) mesh primitives on every face subset -----------------------------------------------

def check_mesh_subsets(spec, ctx):
    import_emsarray()
    from emsarray.conventions.ugrid import buffer_faces, mask_from_face_indexes
    ds, conv = open_case(spec)
    g = spec["geom"]
    faces = g["faces"]
    nf = len(faces)
    topology = conv.topology
    for bits in range(1, 1 << nf):
        subset = [f for f in range(nf) if (bits >> f) & 1]
        arr = numpy.array(subset, dtype=numpy.int32)
        ctx.at("C07.buffer_faces")
        grown = sorted(int(v) for v in buffer_faces(arr, topology))
        want = refmodel.mesh_node_ring(faces, set(subset))
        ctx.check(grown == want, "C07.buffer_faces",
                  lambda: f"buffer_faces({subset}) = {grown}; faces sharing a node with them: {want}")
        ctx.at("C07.mask_from_face_indexes")
        mask = mask_from_face_indexes(arr, topology)
        check_renumbering(ctx, "C07.mesh_faces", f"mask_from_face_indexes({subset}).new_face_index",
                          mask["new_face_index"].values, nf, subset)
        nodes = sorted({k for f in subset for k in faces[f]})
        check_renumbering(ctx, "C07.mesh_nodes", f"mask_from_face_indexes({subset}).new_node_index",
                          mask["new_node_index"].values, len(g["nodes"]), nodes)
        if specs.ugrid_has_edge_dim(g):
            want_pairs = set()
            for f in subset:
                ring = faces[f]
                for c in range(len(ring)):
                    a, b = ring[c], ring[(c + 1) % len(ring)]
                    want_pairs.add((min(a, b), max(a, b)))
            pair_of = [tuple(sorted(int(v) for v in row))
                       for row in numpy.ma.getdata(topology.edge_node_array)]
            kept_edges = [e for e, pair in enumerate(pair_of) if pair in want_pairs]
            check_renumbering(ctx, "C07.mesh_edges",
                              f"mask_from_face_indexes({subset}).new_edge_index",
                              mask["new_edge_index"].values, len(pair_of), kept_edges)
    ctx.label(f"mesh_faces:{nf}")
    ctx.nontrivial(nf >= 3)


def subset_strategy(tier):
    return S.dataset_spec(convs=["ugrid"], with_vars=False, modes=("raw",),
                          geom_kwargs={"max_j": 2, "max_i": 3, "allow_bowtie": False}).filter(
        lambda s: len(s["geom"]["faces"]) <= 8)


SUBS = [
    Sub("clip_masks", strategy, check_case, quick=200, thorough=1000),
    Sub("clip_masks_meshes", mesh_strategy, check_case, quick=100, thorough=500),
    Sub("mesh_face_subsets", subset_strategy, check_mesh_subsets, quick=25, thorough=150),
]
ENUMS = [Enum("mask_primitives", primitive_cases, check_primitive, exhaustive_in=("thorough",))]
MATCHERS = {}
