"""
C04 - point lookup returns exactly the lowest-indexed intersecting cell.

Oracles: (1) exact rational point-in-closed-polygon (R-pip) over the cell corners the *spec*
defines; (2) a brute-force scan ``polygon.intersects(point)`` over every polygon (no tree, no
sort).  Both must agree with each other (sanity of the oracle) and the lookup must return the
minimum of the hit set, or None when it is empty.
"""
from fractions import Fraction

import shapely
from hypothesis import strategies as st

from vf import refmodel, specs
from vf import strategies as S
from vf.common import HarnessError
from vf.props._util import open_case
from vf.runner import Sub

PROPERTY = "C04"
RULE = (
    "Datasets of every convention (holes, skewed cells, meshes with concave, self-intersecting "
    "and overlapping faces) x 12-40 query points derived from the case's own geometry: cell "
    "vertices, edge midpoints, interior points, hole interiors, points just outside the hull and "
    "far away. Non-trivial: the point set contains a tie (>= 2 cells hit), a miss and, when the "
    "dataset has holes, a point inside a hole. Distinct = case hash."
)
ASSUMPTIONS = [
    "select_point is compared with select_index only when some variable lives on the face grid "
    "(with none, xarray's isel refuses the selector; nothing is stored there to return)",
    "coordinates are dyadic rationals, so exact rational arithmetic on the float values is the "
    "ground truth for containment",
    "for 2-D CF grids without stored bounds the polygons synthesised by emsarray are taken as the "
    "cell geometry (their construction is not defined by the property statements)",
]


def _mix(points, weights):
    total = sum(weights)
    return (sum(w * p[0] for w, p in zip(weights, points)) / total,
            sum(w * p[1] for w, p in zip(weights, points)) / total)


def make_point(sel, rings, hole_rings, bbox):
    """Turn an abstract selector into coordinates, using the case's own geometry."""
    kind = sel["kind"]
    minx, miny, maxx, maxy = bbox
    span = max(maxx - minx, maxy - miny, 1.0)
    live = [r for r in rings if r is not None]
    if kind in ("vertex", "edge_mid", "interior", "centroid", "near_edge", "nudge_out"):
        ring = live[sel["cell"] % len(live)]
        k = len(ring)
        a = sel["a"] % k
        if kind == "vertex":
            return ring[a]
        if kind == "edge_mid":
            return _mix([ring[a], ring[(a + 1) % k]], [1, 1])
        if kind == "near_edge":
            # on the edge, a quarter of the way along
            return _mix([ring[a], ring[(a + 1) % k]], [3, 1])
        if kind == "centroid":
            return _mix(ring, [1] * k)
        if kind == "nudge_out":
            # a vertex (or edge midpoint) pushed away from the cell's centroid by a tiny amount:
            # just outside the hull when the vertex is on it, inside a neighbour otherwise
            c = _mix(ring, [1] * k)
            v = ring[a] if sel["b"] & 1 else _mix([ring[a], ring[(a + 1) % k]], [1, 1])
            eps = 2.0 ** -(8 + (sel["b"] >> 1) % 24)
            return (v[0] + (v[0] - c[0]) * eps, v[1] + (v[1] - c[1]) * eps)
        weights = [1 + ((sel["b"] >> (2 * c)) & 3) for c in range(k)]
        return _mix(ring, weights)
    if kind == "hole":
        if not hole_rings:
            return None
        ring = hole_rings[sel["cell"] % len(hole_rings)]
        return _mix(ring, [1] * len(ring))
    if kind == "outside":
        corner = [(minx, miny), (maxx, miny), (maxx, maxy), (minx, maxy)][sel["a"] % 4]
        dx = -1 if corner[0] == minx else 1
        dy = -1 if corner[1] == miny else 1
        step = span / 1024 * (1 + sel["b"] % 4)
        return (corner[0] + dx * step, corner[1] + dy * step)
    if kind == "far":
        return (minx - 500.0 - sel["a"], miny + 300.0 + sel["b"])
    raise HarnessError(f"unknown point selector {kind}")


def cell_hits(xy, polygons, cells, defined):
    """Sorted list of the cells that contain or touch the point: exact rational arithmetic on
    the spec's corners where the statements define the cell, cross-checked against a brute-force
    scan of emsarray's polygons (which is the only oracle where they do not)."""
    n_faces = len(polygons)
    point = shapely.Point(xy)
    brute = [m for m in range(n_faces)
             if polygons[m] is not None and polygons[m].intersects(point)]
    if not defined:
        return brute
    exact = [m for m in range(n_faces)
             if cells[m] is not None and refmodel.point_in_closed_polygon(xy, cells[m])]
    if exact != brute:
        # Either emsarray's polygons are not the dataset's cells (C06's business, but it
        # invalidates this oracle) or GEOS and exact arithmetic disagree.
        same_geometry = all(
            (polygons[m] is None) == (cells[m] is None)
            and (cells[m] is None or refmodel.ring_normal_form(refmodel.polygon_ring(polygons[m]))
                 == refmodel.ring_normal_form(cells[m]))
            for m in range(n_faces))
        if same_geometry:
            raise HarnessError(f"oracles disagree at {xy}: exact {exact} brute {brute}")
    return exact


def case_geometry(spec, conv):
    """(polygons, cells, defined, rings, hole_rings, bbox) for point generation; bbox is None
    when the dataset has no cell geometry at all."""
    polygons = conv.polygons
    defined = refmodel.cells_defined_by_statement(spec)
    cells = refmodel.cells(spec)
    if defined:
        rings = cells
    else:
        rings = [None if p is None else refmodel.polygon_ring(p)[:-1] for p in polygons]
    hole_rings = _hole_rings(spec) if defined else []
    if not any(r is not None for r in rings):
        return polygons, cells, defined, rings, hole_rings, None
    xs = [p[0] for r in rings if r is not None for p in r]
    ys = [p[1] for r in rings if r is not None for p in r]
    return polygons, cells, defined, rings, hole_rings, (min(xs), min(ys), max(xs), max(ys))


def check_case(case, ctx):
    spec = case["spec"]
    ds, conv = open_case(spec)
    enums = refmodel.kind_enums(conv)
    polygons = conv.polygons
    n_faces = refmodel.grid_size(spec, "face")
    defined = refmodel.cells_defined_by_statement(spec)
    cells = refmodel.cells(spec)
    if defined:
        rings = cells
    else:
        rings = [None if p is None else refmodel.polygon_ring(p)[:-1] for p in polygons]
    if spec["conv"] in ("cf2d", "shoc_simple"):
        # whatever construction gives the other cells their shape, a cell whose centre
        # coordinates are missing has none (and so can never be the answer to a lookup)
        holes = spec["geom"]["holes"]
        ni = len(holes[0])
        for j, row in enumerate(holes):
            for i, hole in enumerate(row):
                ctx.check(not hole or polygons[j * ni + i] is None, "C04.holes_never_returned",
                          lambda: f"cell ({j}, {i}) has no coordinates but polygons[{j * ni + i}] = "
                          f"{polygons[j * ni + i].wkt}")
    hole_rings = _hole_rings(spec) if defined else []
    if not any(r is not None for r in rings):
        # (only for 2-D CF grids without bounds that are one cell wide: the synthesised cells
        # are degenerate and dropped) - nothing to look up
        ctx.label("no_geometry_at_all")
        return
    xs = [p[0] for r in rings if r is not None for p in r]
    ys = [p[1] for r in rings if r is not None for p in r]
    bbox = (min(xs), min(ys), max(xs), max(ys))
    has_holes = any(r is None for r in rings)

    if case.get("pre_wind"):
        # history: index conversions on the OTHER grid kinds first (they must not colour what a
        # later lookup on the face grid reports, however the sizes of the grids coincide)
        sizes_by_kind = {k: refmodel.grid_size(spec, k) for k in enums}
        with ctx.using("C04.lookup", "wind_index on every grid kind before the lookups"):
            for kind in sorted(enums, key=lambda k: k == "face"):
                for k in range(min(sizes_by_kind[kind], 64)):
                    conv.wind_index(k, grid_kind=enums[kind])
        ctx.label("pre_wind")
        if any(k != "face" and v == sizes_by_kind["face"] for k, v in sizes_by_kind.items()):
            ctx.label("pre_wind:another_grid_kind_as_large_as_the_face_grid")

    saw_tie = saw_miss = saw_hole_point = False
    for sel in case["points"]:
        xy = make_point(sel, rings, hole_rings, bbox)
        if xy is None:
            continue
        point = shapely.Point(xy)
        hits = cell_hits(xy, polygons, cells, defined)
        ctx.label("point:" + sel["kind"])
        if len(hits) >= 2:
            saw_tie = True
        if not hits:
            saw_miss = True
        if sel["kind"] == "hole":
            saw_hole_point = True

        ctx.at("C04.lookup")
        item = conv.get_index_for_point(point)
        if not hits:
            ctx.check(item is None, "C04.miss_is_none",
                      lambda: f"point {xy} ({sel['kind']}) lies in no cell but the lookup returned "
                      f"linear index {item.linear_index}")
            ctx.at("C04.select_point_miss")
            ctx.raises("C04.select_point_miss", lambda: conv.select_point(point),
                       f"select_point({xy}) outside every cell", exc_types=ValueError)
            continue
        ctx.check(item is not None, "C04.hit_is_found",
                  lambda: f"point {xy} ({sel['kind']}) lies in cells {hits} but the lookup returned None")
        want = hits[0]
        ctx.check(int(item.linear_index) == want, "C04.lowest_index",
                  lambda: f"point {xy} ({sel['kind']}) intersects cells {hits}; lookup returned "
                  f"linear index {item.linear_index}, expected {want}")
        native = refmodel.native_index(spec, "face", want, enums["face"])
        ctx.check(tuple(item.index) == tuple(native), "C04.native_index",
                  lambda: f"lookup at {xy}: index {item.index!r} but linear index {want} is {native!r}")
        ctx.check(item.polygon is polygons[want], "C04.polygon",
                  lambda: f"lookup at {xy}: returned polygon is not polygons[{want}]")
        ctx.check(polygons[int(item.linear_index)] is not None, "C04.no_holes",
                  f"lookup at {xy} returned a cell without geometry")
        if sel.get("select") and any(v["kind"] == "face" for v in spec["vars"]):
            ctx.at("C04.select_point")
            got = conv.select_point(point)
            ref = conv.select_index(native)
            ctx.check(got.identical(ref), "C04.select_point",
                      lambda: f"select_point({xy}) differs from select_index({native!r})")

    ctx.label("conv:" + spec["conv"])
    if has_holes:
        ctx.label("has_holes")
    if saw_tie:
        ctx.label("case_with_tie")
    ctx.nontrivial(saw_tie and saw_miss and (saw_hole_point or not has_holes or not hole_rings))


def _hole_rings(spec):
    """Would-be corner rings of hole cells whose lattice nodes are all known in the spec."""
    conv, g = spec["conv"], spec["geom"]
    out = []
    if conv in ("cf2d", "shoc_simple"):
        nodes, holes = g["nodes"], g["holes"]
        for j in range(len(holes)):
            for i in range(len(holes[0])):
                if holes[j][i]:
                    out.append([tuple(nodes[a][b]) for a, b in specs.cell_corner_nodes(j, i)])
    elif conv == "ugrid":
        for f in g.get("invalid") or []:
            out.append([tuple(g["nodes"][k]) for k in g["faces"][f]])
    return out


POINT = st.fixed_dictionaries({
    "kind": st.sampled_from(["vertex", "vertex", "edge_mid", "edge_mid", "near_edge", "interior",
                             "interior", "centroid", "hole", "outside", "far", "nudge_out", "nudge_out"]),
    "cell": st.integers(0, 63), "a": st.integers(0, 7), "b": st.integers(0, 255),
    "select": st.booleans(),
})


@st.composite
def cases(draw, convs=S.ALL_CONVS):
    spec = draw(S.dataset_spec(convs=convs, max_vars=2, max_extra=1, modes=("raw",),
                               geom_kwargs={"allow_overlap": True, "max_n": 6}))
    points = draw(st.lists(POINT, min_size=12, max_size=40))
    return {"spec": spec, "points": points, "pre_wind": draw(st.booleans())}


def strategy(tier):
    return cases()


def mesh_strategy(tier):
    return cases(convs=["ugrid"])


SUBS = [
    Sub("lookup", strategy, check_case, quick=250, thorough=1200),
    Sub("lookup_meshes", mesh_strategy, check_case, quick=120, thorough=500),
]
