"""
C05 - index and point selection return the stored values, complete and in order.

Oracle: the spec.  Every value of the result is compared with the value the spec stores at the
requested cell (R-index + the injective data codes); which points hit which cell comes from C04's
exact containment oracle, not from emsarray.
"""
import itertools
import warnings
import math

import numpy
import pandas
import shapely
from hypothesis import strategies as st

from vf import refmodel, specs
from vf import strategies as S
from vf.props import c04
from vf.props._util import expected_scalar, open_case, same_number
from vf.runner import Sub

PROPERTY = "C05"
RULE = (
    "Datasets of every convention with 2-4 variables spread over grid kinds x (a) index lists of "
    "length 1-8 with repeats in arbitrary order on any grid kind, custom index dimension names; "
    "(b) point lists mixing interior hits, boundary hits and misses under error/drop (select_points) "
    "and error/drop/fill (extract_dataframe with extra str/int/float columns), default and custom "
    "point dimension names. Non-trivial: the index list has a repeat or is unsorted, or the point "
    "list has a miss and a boundary hit. Distinct = case hash."
)
ASSUMPTIONS = [
    "point lists given to 'drop'/'fill' contain at least one hit (select_indexes([]) is "
    "documented to refuse an empty list)",
    "at least one variable lives on the selected grid",
    "a custom index/point dimension name is not already a dimension of the dataset",
    "data frames carry the default RangeIndex (what pandas.read_csv gives the CLI)",
]


def _compare_selected(ctx, clause, spec, var, result, req_dim, requests, kind, what):
    """``result`` is the selected DataArray of ``var``; requests is a list of linear indexes (or
    None for a row that must be entirely missing)."""
    gdims = specs.grid_dims(spec)[kind]
    sizes = specs.dim_sizes(spec)
    names = specs.var_dim_names(spec, var)
    other = [d for d in names if d not in gdims]
    ctx.check(set(result.dims) == set(other) | ({req_dim} if req_dim else set()), clause,
              lambda: f"{what}: {var['name']} has dims {result.dims}; expected {other} + [{req_dim}]")
    if req_dim:
        ctx.check(result.sizes[req_dim] == len(requests), clause,
                  lambda: f"{what}: {var['name']} has {result.sizes[req_dim]} entries for "
                  f"{len(requests)} requests")
    kept_order = [d for d in result.dims if d != req_dim]
    ctx.check(kept_order == other, clause,
              lambda: f"{what}: other dimensions of {var['name']} reordered: {kept_order} vs {other}")
    values = result.transpose(*(([req_dim] if req_dim else []) + other)).values
    if var["dtype"] == "M8":
        ctx.check(values.dtype.kind == "M", clause,
                  lambda: f"{what}: time stamp variable {var['name']} came back as {values.dtype}")
    for r, lin in enumerate(requests):
        for extra_idx in itertools.product(*(range(sizes[d]) for d in other)):
            got = values[((r,) if req_dim else ()) + extra_idx]
            if lin is None:
                ctx.check(_is_null(got), clause,
                          lambda: f"{what}: row {r} is a miss but {var['name']}{extra_idx} = {got!r}")
                continue
            idx = dict(zip(other, extra_idx))
            idx.update(dict(zip(gdims, refmodel.native_components(spec, kind, lin))))
            want = expected_scalar(spec, var, idx)
            ctx.check(same_number(got, want), clause,
                      lambda: f"{what}: request {r} (cell {lin}) {var['name']}{extra_idx} = {got!r}; "
                      f"the dataset stores {want!r}")


def _is_null(v):
    try:
        return bool(pandas.isnull(v))
    except Exception:
        return False


def _check_variable_set(ctx, clause, spec, result, kind, what):
    geometry_like = set()
    for var in spec["vars"]:
        present = var["name"] in result.variables
        if var["kind"] == kind:
            ctx.check(present, clause, lambda: f"{what}: variable {var['name']} on the selected "
                      f"{kind} grid is missing from the result ({list(result.variables)})")
        elif var["kind"] is not None:
            ctx.check(not present, clause, lambda: f"{what}: variable {var['name']} lives on the "
                      f"{var['kind']} grid but is in the result of a {kind} selection")
    return geometry_like


def geometry_names(spec):
    conv, g = spec["conv"], spec["geom"]
    if conv in ("cf1d", "cf2d", "shoc_simple"):
        names = [g["names"]["lat"], g["names"]["lon"]]
        if conv == "cf1d":
            if g.get("lat_bounds") is not None:
                names.append(g["names"]["lat"] + "_bnds")
            if g.get("lon_bounds") is not None:
                names.append(g["names"]["lon"] + "_bnds")
        elif g["bounds"] or g.get("bad_bounds"):
            names += [g["names"]["lat"] + "_bnds", g["names"]["lon"] + "_bnds"]
        return names
    if conv in ("arakawa", "shoc_standard"):
        table = specs.SHOC_COORDS if conv == "shoc_standard" else specs.GENERIC_C_COORDS
        return [n for pair in table.values() for n in pair]
    enc = g["enc"]
    names = [enc["names"]["mesh"], enc["names"]["face_node"], enc["names"]["node_x"],
             enc["names"]["node_y"]] + [enc["names"][t] for t in enc["supply"]]
    if enc.get("face_coords"):
        names += [enc["names"]["face_x"], enc["names"]["face_y"]]
    if enc.get("edge_coords") and specs.ugrid_has_edge_dim(g):
        names += [enc["names"]["edge_x"], enc["names"]["edge_y"]]
    return names


def check_case(case, ctx):
    spec = case["spec"]
    ds, conv = open_case(spec)
    enums = refmodel.kind_enums(conv)
    shapes = specs.grid_shapes(spec)
    all_dims = set(ds.dims)
    nontrivial = False

    # ---- (a) selection by index / list of indexes
    kinds_with_vars = sorted({v["kind"] for v in spec["vars"] if v["kind"] is not None})
    for req in case["index_requests"]:
        if not kinds_with_vars:
            break
        kind = kinds_with_vars[req["kind"] % len(kinds_with_vars)]
        ke = enums[kind]
        n_cells = refmodel.grid_size(spec, kind)
        lins = [k % n_cells for k in req["cells"]]
        natives = [refmodel.native_index(spec, kind, lin, ke) for lin in lins]
        dim_name = req["dim"]
        if dim_name is not None and dim_name in all_dims:
            dim_name = None
        want_dim = dim_name
        if want_dim is None:
            want_dim = "index"
            k = 0
            while want_dim in all_dims:
                want_dim = f"index_{k}"
                k += 1
        if len(set(lins)) < len(lins) or lins != sorted(lins):
            nontrivial = True
        ctx.at("C05.select_indexes")
        kwargs = {} if dim_name is None else {"index_dimension": dim_name}
        result = conv.select_indexes(natives, **kwargs)
        what = f"select_indexes({lins} on {kind}, {kwargs})"
        _check_variable_set(ctx, "C05.variable_set", spec, result, kind, what)
        for gname in geometry_names(spec):
            ctx.check(gname not in result.variables, "C05.geometry_dropped",
                      lambda: f"{what}: geometry variable {gname} is in the result")
        for var in spec["vars"]:
            if var["kind"] == kind and var["name"] in result.variables:
                with ctx.using("C05.select_indexes", what):
                    _compare_selected(ctx, "C05.select_indexes", spec, var, result[var["name"]],
                                      want_dim, lins, kind, what)
        # single index
        ctx.at("C05.select_index")
        single = conv.select_index(natives[0])
        what = f"select_index({natives[0]!r})"
        _check_variable_set(ctx, "C05.variable_set", spec, single, kind, what)
        for var in spec["vars"]:
            if var["kind"] == kind and var["name"] in single.variables:
                with ctx.using("C05.select_index", what):
                    _compare_selected(ctx, "C05.select_index", spec, var, single[var["name"]],
                                      None, [lins[0]], kind, what)

    # ---- (b) selection by points
    face_vars = [v for v in spec["vars"] if v["kind"] == "face"]
    polygons, cells, defined, rings, hole_rings, bbox = c04.case_geometry(spec, conv)
    if bbox is not None and face_vars:
        for preq in case["point_requests"]:
            xys, hits = [], []
            for sel in preq["points"]:
                xy = c04.make_point(sel, rings, hole_rings, bbox)
                if xy is None:
                    continue
                h = c04.cell_hits(xy, polygons, cells, defined)
                xys.append(xy)
                hits.append(h[0] if h else None)
            if not xys:
                continue
            misses = [k for k, h in enumerate(hits) if h is None]
            boundary = any(s["kind"] in ("vertex", "edge_mid", "near_edge") for s in preq["points"])
            if misses and boundary and len(misses) < len(hits):
                nontrivial = True
            _check_points(ctx, spec, ds, conv, preq, xys, hits, misses, face_vars, all_dims)

    _check_edited_in_place(ctx, spec, ds, enums)
    ctx.label("conv:" + spec["conv"])
    ctx.label("mode:" + spec.get("mode", "raw"))
    ctx.nontrivial(nontrivial)


def _check_edited_in_place(ctx, spec, ds, enums, clause="C05.select_after_in_place_edit"):
    """History on one dataset object: select, then replace / add / delete variables in place
    (ds[name] = ..., del ds[name]), then select again - the second answer reflects the dataset
    as it is now.  (Done on a shallow copy with its own convention, so that the dataset handed
    out by open_case stays untouched.)"""
    numeric = [v for v in spec["vars"] if v["kind"] == "face" and v["dtype"] != "M8"]
    if not numeric or spec["conv"] == "arakawa":
        return
    work = ds.copy()
    with warnings.catch_warnings():
        warnings.simplefilter("ignore")
        conv = specs.bind_convention(dict(spec, warmup=[]), work)
    n_cells = refmodel.grid_size(spec, "face")
    lins = sorted({0, n_cells - 1, n_cells // 2})
    natives = [refmodel.native_index(spec, "face", lin, enums["face"]) for lin in lins]
    victim = numeric[0]["name"]
    doomed = numeric[-1]["name"] if len(numeric) > 1 else None
    ctx.at(clause)
    first = conv.select_indexes(natives)
    before = numpy.asarray(first[victim].values, dtype="float64")
    work[victim] = work[victim].astype("float64") * 2 + 1
    work["added_later"] = work[victim] * 0 + 7
    if doomed is not None:
        del work[doomed]
    what = f"select_indexes({lins}) after {victim} was replaced, added_later added" + (
        f" and {doomed} deleted" if doomed else "") + " in place"
    with ctx.using(clause, what):
        second = work.ems.select_indexes(natives)
        got = numpy.asarray(second[victim].values, dtype="float64")
        ctx.check(got.shape == before.shape and numpy.array_equal(got, before * 2 + 1, equal_nan=True),
                  clause,
                  lambda: f"{what}: {victim} = {got.tolist()}; the dataset now holds "
                  f"{(before * 2 + 1).tolist()} there")
        ctx.check("added_later" in second.variables, clause,
                  lambda: f"{what}: the new variable is missing from the selection")
        ctx.check(doomed is None or doomed not in second.variables, clause,
                  lambda: f"{what}: the deleted variable {doomed} is still selected")
    ctx.label("history:edited_in_place_between_selections")


def _check_points(ctx, spec, ds, conv, preq, xys, hits, misses, face_vars, all_dims):
    from emsarray.operations import point_extraction
    points = [shapely.Point(xy) for xy in xys]
    policy = preq["policy"]
    dim_name = preq["dim"]
    if dim_name is not None and dim_name in all_dims:
        dim_name = None
    route = preq["route"]
    hit_rows = [k for k, h in enumerate(hits) if h is not None]
    ctx.label(f"points:{route}:{policy}" + (":with_miss" if misses else ":all_hit"))

    if route == "select_points":
        if policy == "fill":
            policy = "drop"
        want_dim = dim_name
        if want_dim is None:
            want_dim = "point"
            k = 0
            while want_dim in all_dims:
                want_dim = f"point_{k}"
                k += 1
        kwargs = {"missing_points": policy}
        if dim_name is not None:
            kwargs["point_dimension"] = dim_name
        what = f"select_points({xys}, {kwargs})"
        if policy == "error" and misses:
            ctx.at("C05.error_names_misses")
            try:
                conv.select_points(points, **kwargs)
            except point_extraction.NonIntersectingPoints as exc:
                got = sorted(int(i) for i in exc.indexes)
                ctx.check(got == misses, "C05.error_names_misses",
                          lambda: f"{what}: error names points {got}, the misses are {misses}")
            else:
                ctx.fail("C05.error_names_misses", f"{what}: misses {misses} but no error")
            return
        if not hit_rows:
            return
        ctx.at("C05.select_points")
        result = conv.select_points(points, **kwargs)
        _check_variable_set(ctx, "C05.variable_set", spec, result, "face", what)
        labels = [int(v) for v in result[want_dim].values] if want_dim in result.coords else None
        ctx.check(labels == hit_rows, "C05.drop_labels",
                  lambda: f"{what}: rows are labelled {labels}; the hits are at positions {hit_rows}")
        for var in face_vars:
            with ctx.using("C05.select_points", what):
                _compare_selected(ctx, "C05.select_points", spec, var, result[var["name"]],
                                  want_dim, [hits[k] for k in hit_rows], "face", what)
        return

    # ---- extract_dataframe
    lon_col, lat_col = preq["columns"]
    if lon_col in ds.variables or lat_col in ds.variables:
        # a column named like a variable of the dataset (possible since grid dimensions may
        # carry dimension coordinates) is a clash of the caller's making
        lon_col, lat_col = "p" + lon_col, "p" + lat_col
    frame = {lon_col: [xy[0] for xy in xys], lat_col: [xy[1] for xy in xys]}
    extras = {}
    if preq["extra_columns"]:
        extras = {"site": [f"s{k}" for k in range(len(xys))],
                  "count": [k * 3 for k in range(len(xys))],
                  "weight": [k / 4 for k in range(len(xys))]}
        frame.update(extras)
    df = pandas.DataFrame(frame)
    want_dim = dim_name or "point"
    if want_dim in all_dims:
        return
    kwargs = {"missing_points": policy}
    if dim_name is not None:
        kwargs["point_dimension"] = dim_name
    what = f"extract_dataframe({xys}, {kwargs})"
    if policy == "error" and misses:
        ctx.at("C05.error_names_misses")
        try:
            point_extraction.extract_dataframe(ds, df, (lon_col, lat_col), **kwargs)
        except point_extraction.NonIntersectingPoints as exc:
            got = sorted(int(i) for i in exc.indexes)
            ctx.check(got == misses, "C05.error_names_misses",
                      lambda: f"{what}: error names rows {got}, the misses are {misses}")
        else:
            ctx.fail("C05.error_names_misses", f"{what}: misses {misses} but no error")
        return
    if not hit_rows:
        return
    ctx.at("C05.extract_dataframe")
    result = point_extraction.extract_dataframe(ds, df, (lon_col, lat_col), **kwargs)
    rows = list(range(len(xys))) if policy == "fill" else hit_rows
    labels = [int(v) for v in result[want_dim].values]
    ctx.check(labels == rows, "C05.frame_rows",
              lambda: f"{what}: rows {labels}; expected {rows} under policy {policy}")
    for var in face_vars:
        ctx.check(var["name"] in result.variables, "C05.variable_set",
                  lambda: f"{what}: {var['name']} missing from the result")
        with ctx.using("C05.extract_dataframe", what):
            _compare_selected(ctx, "C05.extract_dataframe", spec, var, result[var["name"]],
                              want_dim, [hits[k] for k in rows], "face", what)
    for col, values in list(extras.items()) + [(lon_col, frame[lon_col]), (lat_col, frame[lat_col])]:
        ctx.check(col in result.variables, "C05.frame_columns",
                  lambda: f"{what}: data frame column {col} is not in the result")
        got = list(result[col].values)
        want = [values[k] for k in rows]
        ctx.check(len(got) == len(want) and all(
            (g == w) or (isinstance(w, float) and same_number(g, w)) for g, w in zip(got, want)),
            "C05.frame_columns", lambda: f"{what}: column {col} = {got}, expected {want}")
    for col, std in ((lon_col, "longitude"), (lat_col, "latitude")):
        ctx.check(col in result.coords and result[col].attrs.get("standard_name") == std,
                  "C05.frame_coords",
                  lambda: f"{what}: {col} is not a coordinate with standard_name {std}")


INDEX_REQUEST = st.fixed_dictionaries({
    "kind": st.integers(0, 3),
    "cells": st.lists(st.integers(0, 99), min_size=1, max_size=8),
    "dim": st.sampled_from([None, None, "idx", "station", "index", "point"]),
})
POINT_SEL = st.fixed_dictionaries({
    "kind": st.sampled_from(["vertex", "edge_mid", "near_edge", "interior", "interior", "centroid",
                             "hole", "outside", "far", "nudge_out"]),
    "cell": st.integers(0, 63), "a": st.integers(0, 7), "b": st.integers(0, 255),
})
POINT_REQUEST = st.fixed_dictionaries({
    "points": st.lists(POINT_SEL, min_size=1, max_size=7),
    "policy": st.sampled_from(["error", "drop", "fill"]),
    "route": st.sampled_from(["select_points", "dataframe", "dataframe"]),
    "dim": st.sampled_from([None, None, "station", "point", "obs"]),
    "columns": st.sampled_from([["lon", "lat"], ["x", "y"], ["longitude_deg", "latitude_deg"]]),
    "extra_columns": st.booleans(),
})


@st.composite
def cases(draw):
    spec = draw(S.dataset_spec(max_vars=4, min_vars=2, max_extra=2,
                               modes=("raw", "raw", "decoded", "dask", "file"),
                               var_kwargs={"grid_required": False,
                                           "dtypes": ("f8", "f8", "f4", "i4", "i2", "M8")}))
    return {
        "spec": spec,
        "index_requests": draw(st.lists(INDEX_REQUEST, min_size=1, max_size=2)),
        "point_requests": draw(st.lists(POINT_REQUEST, min_size=1, max_size=3)),
    }


def strategy(tier):
    return cases()


@st.composite
def edge_grid_without_edge_nodes(draw):
    """Meshes whose edge grid exists without an edge-node table (declared edge dimension, or
    implied by an edge-face table alone), with edge coordinates and data on the edges: selections
    by edge index there."""
    case = draw(cases())
    spec = draw(S.dataset_spec(convs=["ugrid"], max_vars=3, min_vars=1, max_extra=1,
                               modes=("raw", "decoded")))
    supply = draw(st.sampled_from([[], ["face_face"], ["edge_face"], ["edge_face", "face_face"]]))
    enc = draw(S.ugrid_encoding(supply=supply, require_edge_node=False))
    enc["edge_dim_attr"] = True if "edge_face" not in supply else draw(st.booleans())
    enc["edge_coords"] = True
    g = spec["geom"]
    if g.get("enc", {}).get("pad_columns"):
        enc["pad_columns"] = g["enc"]["pad_columns"]
    # (two-column tables cannot describe overlapping faces; abstract_mesh only makes them on request)
    g["enc"] = enc
    g["edges"] = specs.mesh_edges(g["faces"])
    spec.pop("dim_coords", None)
    spec["vars"] = [v for v in spec["vars"] if v["kind"] != "edge"] + [
        {"name": "on_edges", "kind": "edge", "dims": ["@0"] + list(spec["extra"])[:1],
         "dtype": "f8", "fill": None}]
    case["spec"] = S.without_clashing_extra(spec)
    return case


@st.composite
def one_based_meshes_from_file(draw):
    """One-based meshes whose tables use 0 as the fill value (what Fortran-side writers do), held
    the way a file gives them: tables decoded to floats, the fill value in the encoding."""
    case = draw(cases())
    enc = draw(S.ugrid_encoding(supply=draw(st.sampled_from([["edge_node", "face_edge"],
                                                             ["edge_node", "face_edge", "edge_face", "face_face"]]))))
    enc.update({"start_index": 1, "fill": "int", "fill_value": 0, "pad_columns": draw(st.sampled_from([0, 1, 1]))})
    spec = draw(S.dataset_spec(convs=["ugrid"], max_vars=3, min_vars=1, max_extra=1,
                               modes=("decoded", "file", "netcdf"), geom_kwargs={"enc": enc}))
    case["spec"] = S.without_clashing_extra(spec)
    return case


SUBS = [Sub("selection", strategy, check_case, quick=200, thorough=1200),
        Sub("one_based_meshes_from_file", lambda tier: one_based_meshes_from_file(), check_case,
            quick=25, thorough=150),
        Sub("edge_grid_without_edge_nodes", lambda tier: edge_grid_without_edge_nodes(), check_case,
            quick=25, thorough=150)]
