"""
C20 - command line tools compute exactly what the library computes.

Oracles: R-bounds-arg - an independent parser of the bounds grammar (split on commas, strip, a
hand-written per-field recogniser; deliberately not a regular expression over the whole string);
differential comparison of the file written by ``emsarray.cli.main(argv)`` with the file produced
by the corresponding library calls on the same inputs; exit status / log output / absence of an
output file for the failure paths.
"""
import argparse
import contextlib
import io
import json
import logging
import os
import subprocess
import sys
import warnings

import netCDF4
import numpy
import pandas
import shapely
import xarray
from hypothesis import strategies as st
from shapely.geometry import box, shape

from vf import refmodel, specs
from vf import strategies as S
from vf.common import REPO_SRC, import_emsarray
from vf.props import c04, c05, c07, c12, c17
from vf.runner import Sub

PROPERTY = "C20"
RULE = (
    "(a) bounds strings from the grammar (optional minus, forms 1 / 1. / .5 / 1.5, underscores "
    "between digits, spaces around commas, Unicode decimal digits) and near-misses (3 or 5 "
    "fields, trailing or leading text, exponent, plus sign, empty field, doubled or misplaced "
    "underscore, newline) through bounds_argument and geometry_argument; GeoJSON strings and "
    "files (valid, invalid JSON, JSON that is no geometry, unsupported extension, missing file). "
    "(b) datasets of every auto-detectable convention written to disk x clip (bounds or GeoJSON "
    "geometry), extract-points (CSV with hits and misses x error/drop/fill x custom columns and "
    "dimension) and export-geometry (explicit format or guessed from the extension), run through "
    "emsarray.cli.main(argv) in process and, for a sample, as `python -m emsarray`. Non-trivial: "
    "a bounds string using >= 2 grammar features or a near-miss; a command with a miss point, a "
    "guessed format or a failure path. Distinct = case hash."
)
ASSUMPTIONS = [
    "whitespace before the first or after the last number is neither required to be accepted nor "
    "to be refused (labelled, not asserted)",
    "in-process calls reset logging.captureWarnings afterwards; the generic ArakawaC convention "
    "cannot be auto-detected and is not used with the command line",
]


# ---- R-bounds-arg ---------------------------------------------------------------------------

def _digits_ok(text):
    """digits, optionally grouped by single underscores between digits"""
    if text == "":
        return False
    groups = text.split("_")
    return all(g != "" and all(ch.isdecimal() for ch in g) for g in groups)


def parse_field(text):
    """The number a bounds field denotes, or None if it is not a number of the grammar."""
    body = text[1:] if text.startswith("-") else text
    if body.count(".") > 1:
        return None
    if "." in body:
        whole, frac = body.split(".")
        if whole == "" and frac == "":
            return None
        if (whole != "" and not _digits_ok(whole)) or (frac != "" and not _digits_ok(frac)):
            return None
    elif not _digits_ok(body):
        return None
    try:
        return float(text.replace("_", ""))
    except ValueError:
        return None


def r_bounds(text):
    """Four numbers if ``text`` is exactly four comma separated numbers (whitespace allowed around
    the commas only), else None."""
    fields = text.split(",")
    if len(fields) != 4:
        return None
    out = []
    for k, field in enumerate(fields):
        stripped = field
        if k > 0:
            stripped = stripped.lstrip(" \t\n\r\f\v")
        if k < 3:
            stripped = stripped.rstrip(" \t\n\r\f\v")
        value = parse_field(stripped)
        if value is None:
            return None
        out.append(value)
    return out


NUMBER_FORMS = st.sampled_from(["1", "12", "1.", ".5", "1.5", "0.25", "1_000", "1_0.2_5", "007",
                                "153.25", "27.5", "0", "9_9", "٣", "１２"])


@st.composite
def good_number(draw):
    return ("-" if draw(st.booleans()) else "") + draw(NUMBER_FORMS)


@st.composite
def bounds_strings(draw):
    kind = draw(st.sampled_from(["good", "good", "good", "near_miss", "near_miss", "free"]))
    if kind == "free":
        return {"text": draw(st.text(alphabet="0123456789-._, +eE\n\tx", max_size=14)), "kind": kind}
    nums = [draw(good_number()) for _ in range(4)]
    seps = [draw(st.sampled_from([",", ", ", " ,", " , ", ",  ", "\t,"])) for _ in range(3)]
    text = nums[0] + seps[0] + nums[1] + seps[1] + nums[2] + seps[2] + nums[3]
    if kind == "good":
        return {"text": text, "kind": kind}
    miss = draw(st.sampled_from([
        "five_fields", "three_fields", "trailing_text", "leading_text", "exponent", "plus_sign",
        "empty_field", "double_underscore", "trailing_underscore", "leading_underscore",
        "trailing_newline", "leading_space", "trailing_space", "two_dots", "lone_dot",
        "double_minus", "trailing_comma", "semicolon", "inner_space", "nan", "hex"]))
    k = draw(st.integers(0, 3))
    if miss == "five_fields":
        text = text + "," + draw(good_number())
    elif miss == "three_fields":
        text = nums[0] + "," + nums[1] + "," + nums[2]
    elif miss == "trailing_text":
        text = text + draw(st.sampled_from(["abc", "x", " m", "deg", ")", "]"]))
    elif miss == "leading_text":
        text = draw(st.sampled_from(["x", "(", "[", "bbox="])) + text
    elif miss == "trailing_newline":
        text = text + "\n"
    elif miss == "leading_space":
        text = " " + text
    elif miss == "trailing_space":
        text = text + " "
    elif miss == "trailing_comma":
        text = text + ","
    elif miss == "semicolon":
        text = text.replace(",", ";", 1)
    else:
        bad = {"exponent": "1e3", "plus_sign": "+1.5", "empty_field": "", "double_underscore": "1__0",
               "trailing_underscore": "10_", "leading_underscore": "_10", "two_dots": "1.2.3",
               "lone_dot": ".", "double_minus": "--1", "inner_space": "1 0", "nan": "nan",
               "hex": "0x10"}[miss]
        nums[k] = bad
        text = ",".join(nums)
    return {"text": text, "kind": "near_miss:" + miss}


def check_bounds(case, ctx):
    import_emsarray()
    from emsarray.cli import utils as cli_utils
    text = case["text"]
    want = r_bounds(text)
    edge_space = text != text.strip(" \t\n\r\f\v")
    if edge_space and want is None and r_bounds(text.strip(" \t\n\r\f\v")) is not None:
        ctx.label("outer_whitespace_not_asserted")
        return
    for fn_name in ("bounds_argument", "geometry_argument"):
        fn = getattr(cli_utils, fn_name)
        ctx.at("C20.bounds_grammar")
        try:
            got = fn(text)
            error = None
        except argparse.ArgumentTypeError as exc:
            got, error = None, exc
        if want is not None:
            ctx.check(got is not None, "C20.bounds_accepted",
                      lambda: f"{fn_name}({text!r}) refused four comma separated numbers {want}: {error}")
            lo_x, hi_x = sorted((want[0], want[2]))
            lo_y, hi_y = sorted((want[1], want[3]))
            ctx.check(got.geom_type == "Polygon" and tuple(got.bounds) == (lo_x, lo_y, hi_x, hi_y),
                      "C20.bounds_value",
                      lambda: f"{fn_name}({text!r}) = {got.wkt}; the string denotes the box {want}")
        else:
            ctx.check(got is None or not _looks_like_box(got, text), "C20.not_bounds_refused",
                      lambda: f"{fn_name}({text!r}) returned {got.wkt}: the text is not exactly four "
                      f"comma separated numbers but was taken as bounds")
            if fn_name == "bounds_argument":
                ctx.check(got is None, "C20.not_bounds_refused",
                          lambda: f"bounds_argument({text!r}) returned {got.wkt}")
    features = sum(1 for f in ("_", ".", "-", " ", "\t") if f in text)
    ctx.label("bounds:" + case["kind"].split(":")[0])
    ctx.nontrivial(case["kind"].startswith("near_miss") or features >= 2)


def _looks_like_box(geom, text):
    if geom.geom_type != "Polygon" or len(geom.exterior.coords) != 5:
        return False
    try:
        json.loads(text)
        return False       # it was valid JSON: then it is a GeoJSON geometry, not bounds
    except ValueError:
        return True


# ---- GeoJSON arguments ------------------------------------------------------------------------

GEOJSON_CASES = st.sampled_from([
    "point", "polygon", "multipolygon", "linestring", "invalid_json", "not_geometry", "number",
    "file_geojson", "file_json", "file_wrong_extension", "file_missing", "file_invalid"])


def check_geojson_argument(case, ctx):
    import_emsarray()
    from emsarray.cli import utils as cli_utils
    kind = case["kind"]
    geoms = {
        "point": shapely.Point(1.5, -2.25),
        "polygon": box(1, 2, 3.5, 4),
        "multipolygon": shapely.MultiPolygon([box(0, 0, 1, 1), box(2, 2, 3, 3)]),
        "linestring": shapely.LineString([(0, 0), (1, 2), (3, 1)]),
    }
    with specs.scratch_dir() as tmp:
        expect_error = False
        want = None
        if kind in geoms:
            want = geoms[kind]
            arg = json.dumps(shapely.geometry.mapping(want))
        elif kind == "invalid_json":
            arg = '{"type": "Point", "coordinates": [1, 2'
            expect_error = True
        elif kind == "not_geometry":
            arg = '{"hello": "world"}'
            expect_error = True
        elif kind == "number":
            arg = "12.5"
            expect_error = True
        else:
            want = box(10, -5, 12.5, -2)
            name = {"file_geojson": "clip.geojson", "file_json": "clip.json",
                    "file_wrong_extension": "clip.txt", "file_missing": "missing.geojson",
                    "file_invalid": "broken.geojson"}[kind]
            arg = os.path.join(tmp, name)
            if kind == "file_invalid":
                open(arg, "w").write("{not json")
            elif kind != "file_missing":
                json.dump(shapely.geometry.mapping(want), open(arg, "w"))
            expect_error = kind in ("file_wrong_extension", "file_missing", "file_invalid")
        ctx.at("C20.geojson_argument")
        try:
            got = cli_utils.geometry_argument(arg)
            error = None
        except argparse.ArgumentTypeError as exc:
            got, error = None, exc
        if expect_error:
            ctx.check(got is None, "C20.unreadable_geometry_refused",
                      lambda: f"geometry_argument({kind}) returned {got.wkt} instead of refusing")
        else:
            ctx.check(got is not None and got.equals(want) and got.geom_type == want.geom_type,
                      "C20.geojson_argument",
                      lambda: f"geometry_argument({kind}) = {None if got is None else got.wkt}; "
                      f"expected {want.wkt} ({error})")
    ctx.label("geojson:" + kind)
    ctx.nontrivial(True)


# ---- commands ---------------------------------------------------------------------------------------

def run_cli(argv):
    """Run the command line in process.  Returns (exit status, text written to stderr/logs)."""
    from emsarray.cli import main
    stream = io.StringIO()
    status = 0
    with contextlib.redirect_stderr(stream), contextlib.redirect_stdout(stream):
        try:
            main(argv)
        except SystemExit as exc:
            status = exc.code if isinstance(exc.code, int) else (0 if exc.code is None else 1)
        finally:
            logging.captureWarnings(False)
    return status, stream.getvalue()


def _plain(value):
    """Exact decimal expansion of a float without an exponent (the bounds grammar has none)."""
    import decimal
    text = format(decimal.Decimal(float(value)), "f")
    return text if text not in ("-0", "-0.0") else "0"


def same_dataset(path_a, path_b):
    with xarray.open_dataset(path_a) as a, xarray.open_dataset(path_b) as b:
        a.load()
        b.load()
    if not a.identical(b):
        try:
            xarray.testing.assert_identical(a, b)
        except AssertionError as exc:
            return str(exc)[:700]
        return "datasets differ"
    with netCDF4.Dataset(path_a) as na, netCDF4.Dataset(path_b) as nb:
        for name in na.variables:
            ua = na.variables[name].getncattr("units") if "units" in na.variables[name].ncattrs() else None
            ub = nb.variables[name].getncattr("units") if name in nb.variables and "units" in nb.variables[name].ncattrs() else None
            if ua != ub:
                return f"raw units of {name}: {ua!r} vs {ub!r}"
    return None


def _insert(items, item, position):
    """items with item inserted somewhere (one point is a sure hit, but not always the first)."""
    items = list(items)
    items.insert(position % (len(items) + 1), item)
    return items


@st.composite
def command_cases(draw, command=None):
    conv = draw(st.sampled_from(["cf1d", "cf2d", "shoc_simple", "shoc_standard", "ugrid"]))
    spec = {"conv": conv, "geom": draw(S.geometry(conv, max_n=4, max_j=2, max_i=3,
                                                   allow_bowtie=False))}
    if conv == "ugrid":
        spec["geom"]["enc"]["coords_as"] = "var"
    tname, tdim = c12.TIME_NAMES.get(conv, ("time", "time"))
    u = draw(c17.unit_cases(early_epochs=False))
    nt = draw(st.integers(1, 2))
    spec["time"] = {"name": tname, "dim": tdim, "units": c17.build_units(u),
                    "values": list(range(nt)), "dtype": "f8"}
    spec["extra"] = {tdim: nt}
    n_grid = 1 if conv == "ugrid" else 2
    variables = []
    for k in range(draw(st.integers(1, 2))):
        dims = [f"@{q}" for q in range(n_grid)]
        if draw(st.booleans()):
            dims = [tdim] + dims
        variables.append({"name": f"v{k}", "kind": "face", "dims": dims,
                          "dtype": draw(st.sampled_from(["f8", "f4", "i4"])), "fill": None})
    spec["vars"] = variables
    spec["mode"] = "raw"
    if command is None:
        command = draw(st.sampled_from(["clip", "extract-points", "export-geometry", "failure"]))
    sure_hit = {"kind": draw(st.sampled_from(["interior", "centroid"])), "cell": draw(st.integers(0, 63)),
                "a": draw(st.integers(0, 7)), "b": draw(st.integers(0, 255))}
    return {
        "spec": spec, "command": command,
        "geom": draw(c07.SIMPLE_GEOM), "clip_as": draw(st.sampled_from(["bounds", "geojson", "geojson_file"])),
        "points": _insert(draw(st.lists(c05.POINT_SEL, min_size=0, max_size=4)), sure_hit,
                          draw(st.integers(0, 4))),
        "policy": draw(st.sampled_from(["error", "drop", "fill", None])),
        "columns": draw(st.sampled_from([None, ["x", "y"], ["lon_deg", "lat_deg"]])),
        "dimension": draw(st.sampled_from([None, "station", "obs"])),
        "format": draw(st.sampled_from(["geojson", "wkt", "wkb", "shapefile", "auto.geojson",
                                        "auto.json", "auto.wkt", "auto.wkb", "auto.shp"])),
        "file_reused": draw(st.booleans()),
        "dotted_stem": draw(st.booleans()),
        "repeat_row": draw(st.sampled_from([0, 0, 1, 2, 3])),
        "explicit_extension": draw(st.sampled_from([".out", "", ".geojson", ".json", ".wkt", ".wkb",
                                                    ".shp", ".txt"])),
        "failure": draw(st.sampled_from(["miss_error", "unknown_extension", "unknown_extension",
                                         "bad_format", "bad_geometry", "missing_input"])),
        "unknown_extension": draw(st.sampled_from([".xyz", ".topojson", ".ndjson", ".txt", "", ".nc",
                                                   ".geojsonl", ".wkt2", ".shpx", ".xwkb", ".js"])),
    }


def check_command(case, ctx):
    emsarray = import_emsarray()
    from emsarray.operations import geometry as geometry_ops
    from emsarray.operations import point_extraction
    from emsarray.utils import to_netcdf_with_fixes
    spec = case["spec"]
    with specs.scratch_dir() as tmp, warnings.catch_warnings():
        warnings.simplefilter("ignore")
        src = os.path.join(tmp, "input.nc")
        specs.build_raw(spec).to_netcdf(src)
        ds = emsarray.open_dataset(src)
        conv = ds.ems
        polygons, cells, defined, rings, hole_rings, bbox = c04.case_geometry(spec, conv)
        ds.close()
        if bbox is None:
            ctx.label("no_geometry_at_all")
            return
        command = case["command"]
        out_cli = os.path.join(tmp, "cli_out.nc")
        out_lib = os.path.join(tmp, "lib_out.nc")
        nontrivial = False

        if command == "failure":
            _check_failure(ctx, case, tmp, src, rings, hole_rings, bbox, polygons, cells, defined)
            ctx.label("command:failure:" + case["failure"])
            ctx.nontrivial(True)
            return

        if command == "clip":
            geom = c07.make_geometry(case["geom"], rings, hole_rings, bbox)
            if geom is None or geom.is_empty:
                return
            how = case["clip_as"]
            if how == "bounds" and geom.geom_type in ("Point", "LineString", "MultiPolygon"):
                how = "geojson"      # these cannot be written as four numbers
            if how == "bounds" or geom.geom_type not in ("Polygon", "MultiPolygon", "Point", "LineString"):
                minx, miny, maxx, maxy = geom.bounds
                arg = f"{_plain(minx)},{_plain(miny)}, {_plain(maxx)} ,{_plain(maxy)}"
                geom = box(minx, miny, maxx, maxy)
                how = "bounds"
            elif how == "geojson":
                arg = json.dumps(shapely.geometry.mapping(geom))
            else:
                arg = os.path.join(tmp, "clip.geojson")
                if case.get("file_reused"):
                    # history: the same file name held another region a moment ago and was used
                    # for a clip in this very process
                    everything = box(bbox[0] - 1, bbox[1] - 1, bbox[2] + 1, bbox[3] + 1)
                    with open(arg, "w") as handle:
                        json.dump(shapely.geometry.mapping(everything), handle)
                    run_cli(["clip", src, arg, os.path.join(tmp, "earlier_out.nc")])
                    ctx.label("clip_file_reused_with_new_content")
                with open(arg, "w") as handle:
                    json.dump(shapely.geometry.mapping(geom), handle)
            if not any(p is not None and p.intersects(geom) for p in polygons):
                ctx.label("empty_selection_skipped")
                return
            ctx.at("C20.clip")
            status, log = run_cli(["clip", src, arg, out_cli])
            ctx.check(status == 0 and os.path.exists(out_cli), "C20.clip",
                      lambda: f"emsarray clip {arg!r} exited with {status}: {log[-500:]}")
            lib = emsarray.open_dataset(src)
            work = os.path.join(tmp, "work")
            os.makedirs(work)
            clipped = lib.ems.clip(geom, work)
            clipped.ems.to_netcdf(out_lib)
            lib.close()
            clipped.close()
            diff = same_dataset(out_cli, out_lib)
            ctx.check(diff is None, "C20.clip_equals_library",
                      lambda: f"emsarray clip {arg!r} ({how}) differs from the library result: {diff}")
            nontrivial = how != "bounds"
            ctx.label("command:clip:" + how)

        elif command == "extract-points":
            xys, hits = [], []
            for sel in case["points"]:
                xy = c04.make_point(sel, rings, hole_rings, bbox)
                if xy is None:
                    continue
                xys.append(xy)
                hits.append(bool(c04.cell_hits(xy, polygons, cells, defined)))
            if not xys or not any(hits):
                return
            lon_col, lat_col = case["columns"] or ["lon", "lat"]
            names = [f"p{k}" for k in range(len(xys))]
            if case.get("repeat_row") and len(xys) >= 2:
                # the same station listed twice (every column equal), with other rows after it
                k = case["repeat_row"] % (len(xys) - 1)
                xys.insert(k + 1, xys[k])
                hits.insert(k + 1, hits[k])
                names.insert(k + 1, names[k])
                ctx.label("points_table_with_repeated_row")
            frame = pandas.DataFrame({"name": names,
                                      lon_col: [xy[0] for xy in xys], lat_col: [xy[1] for xy in xys]})
            csv = os.path.join(tmp, "points.csv")
            frame.to_csv(csv, index=False)
            policy = case["policy"]
            argv = ["extract-points", src, csv, out_cli]
            kwargs = {}
            if case["columns"]:
                argv += ["-c", lon_col, lat_col]
            if case["dimension"]:
                argv += ["-d", case["dimension"]]
                kwargs["point_dimension"] = case["dimension"]
            if policy:
                argv += ["--missing-points", policy]
                kwargs["missing_points"] = policy
            misses = not all(hits)
            ctx.at("C20.extract_points")
            status, log = run_cli(argv)
            lib = emsarray.open_dataset(src)
            frame2 = pandas.read_csv(csv)
            if misses and (policy in (None, "error")):
                ctx.check(status != 0 and not os.path.exists(out_cli) and log.strip() != "",
                          "C20.failure_is_reported",
                          lambda: f"emsarray {' '.join(argv[:1] + argv[4:])} with points outside the model: "
                          f"exit status {status}, output file exists: {os.path.exists(out_cli)}, "
                          f"message: {log[-300:]!r}")
                ctx.label("command:extract-points:miss_error")
            else:
                ctx.check(status == 0 and os.path.exists(out_cli), "C20.extract_points",
                          lambda: f"emsarray {' '.join(argv[:1] + argv[4:])} exited with {status}: {log[-500:]}")
                data = point_extraction.extract_dataframe(lib, frame2, (lon_col, lat_col), **kwargs)
                to_netcdf_with_fixes(data, out_lib, time_variable=spec["time"]["name"])
                diff = same_dataset(out_cli, out_lib)
                ctx.check(diff is None, "C20.extract_points_equals_library",
                          lambda: f"emsarray {' '.join(argv[:1] + argv[4:])} differs from "
                          f"extract_dataframe: {diff}")
                ctx.label(f"command:extract-points:{policy}:{'miss' if misses else 'all_hit'}")
            lib.close()
            nontrivial = misses

        else:
            fmt = case["format"]
            explicit = not fmt.startswith("auto.")
            # with an explicit format the extension says nothing: a neutral one, none, or the
            # usual extension of ANOTHER format
            ext = case.get("explicit_extension", ".out") if explicit else "." + fmt.split(".")[1]
            kind = fmt if explicit else {"geojson": "geojson", "json": "geojson", "wkt": "wkt",
                                         "wkb": "wkb", "shp": "shapefile"}[fmt.split(".")[1]]
            stem = ".2024-05" if case.get("dotted_stem") else ""      # cells.2024-05.shp
            target = os.path.join(tmp, "cli_geom" + stem + ext)
            argv = ["export-geometry", src, target] + (["-f", fmt] if explicit else [])
            ctx.at("C20.export_geometry")
            status, log = run_cli(argv)
            ctx.check(status == 0, "C20.export_geometry",
                      lambda: f"emsarray {' '.join(argv[:1] + argv[2:])} exited with {status}: {log[-500:]}")
            lib = emsarray.open_dataset(src)
            target_lib = os.path.join(tmp, "lib_geom" + stem + ext)
            writer = {"geojson": geometry_ops.write_geojson, "wkt": geometry_ops.write_wkt,
                      "wkb": geometry_ops.write_wkb, "shapefile": geometry_ops.write_shapefile}[kind]
            writer(lib, target_lib)
            lib.close()
            produced = sorted(f for f in os.listdir(tmp) if f.startswith("cli_geom"))
            expected = sorted(f.replace("lib_geom", "cli_geom") for f in os.listdir(tmp)
                              if f.startswith("lib_geom"))
            ctx.check(produced == expected, "C20.export_equals_library",
                      lambda: f"export-geometry as {kind} wrote {produced}; the library writes {expected}")
            for name in produced:
                a = open(os.path.join(tmp, name), "rb").read()
                b = open(os.path.join(tmp, name.replace("cli_geom", "lib_geom")), "rb").read()
                if name.endswith(".dbf"):
                    a, b = a[4:], b[4:]        # the dBase header starts with the date of writing
                ctx.check(a == b, "C20.export_equals_library",
                          lambda: f"export-geometry {kind}: {name} differs from the file the library writes")
            usual = {".geojson": "geojson", ".json": "geojson", ".wkt": "wkt", ".wkb": "wkb",
                     ".shp": "shapefile"}.get(ext)
            contradicts = explicit and usual is not None and usual != kind
            nontrivial = not explicit or contradicts
            ctx.label("command:export-geometry:" + ("guessed" if not explicit else
                                                    "explicit_against_extension" if contradicts else "explicit"))
    ctx.label("conv:" + spec["conv"])
    ctx.nontrivial(nontrivial)


def _check_failure(ctx, case, tmp, src, rings, hole_rings, bbox, polygons, cells, defined):
    failure = case["failure"]
    out = os.path.join(tmp, "out.nc")
    if failure == "miss_error":
        minx, miny, maxx, maxy = bbox
        frame = pandas.DataFrame({"lon": [maxx + 50.0], "lat": [maxy + 20.0]})
        csv = os.path.join(tmp, "points.csv")
        frame.to_csv(csv, index=False)
        argv = ["extract-points", src, csv, out]
    elif failure == "unknown_extension":
        out = os.path.join(tmp, "geometry" + case.get("unknown_extension", ".xyz"))
        argv = ["export-geometry", src, out]
    elif failure == "bad_format":
        out = os.path.join(tmp, "geometry.geojson")
        argv = ["export-geometry", src, out, "-f", "kml"]
    elif failure == "bad_geometry":
        argv = ["clip", src, "1,2,3", out]
    else:
        argv = ["clip", os.path.join(tmp, "does-not-exist.nc"), "0,0,1,1", out]
    ctx.at("C20.failure_is_reported")
    status, log = run_cli(argv)
    ctx.check(isinstance(status, int) and status != 0, "C20.failure_is_reported",
              lambda: f"{failure}: emsarray {argv[0]} exited with status {status!r}")
    ctx.check(log.strip() != "", "C20.failure_is_reported",
              lambda: f"{failure}: emsarray {argv[0]} failed silently")
    ctx.check(not os.path.exists(out), "C20.failure_is_reported",
              lambda: f"{failure}: emsarray {argv[0]} left an output file behind")


def check_subprocess(case, ctx):
    """A sample of invocations as a real process: python -m emsarray."""
    import_emsarray()
    spec = case["spec"]
    with specs.scratch_dir() as tmp, warnings.catch_warnings():
        warnings.simplefilter("ignore")
        src = os.path.join(tmp, "input.nc")
        specs.build_raw(spec).to_netcdf(src)
        env = dict(os.environ, PYTHONPATH=REPO_SRC, MPLBACKEND="Agg")
        target = os.path.join(tmp, "cells.geojson")
        proc = subprocess.run([sys.executable, "-W", "ignore", "-m", "emsarray", "export-geometry", src, target],
                              capture_output=True, text=True, env=env, timeout=300)
        ctx.check(proc.returncode == 0 and os.path.exists(target), "C20.subprocess",
                  lambda: f"python -m emsarray export-geometry exited {proc.returncode}: {proc.stderr[-400:]}")
        status, _ = run_cli(["export-geometry", src, os.path.join(tmp, "cells2.geojson")])
        ctx.check(status == 0 and open(target).read() == open(os.path.join(tmp, "cells2.geojson")).read(),
                  "C20.subprocess", "subprocess and in-process export differ")
        bad = subprocess.run([sys.executable, "-W", "ignore", "-m", "emsarray", "export-geometry", src,
                              os.path.join(tmp, "cells.unknown")],
                             capture_output=True, text=True, env=env, timeout=300)
        ctx.check(bad.returncode != 0 and bad.stderr.strip() != ""
                  and not os.path.exists(os.path.join(tmp, "cells.unknown")), "C20.failure_is_reported",
                  lambda: f"python -m emsarray export-geometry to an unknown extension: exit "
                  f"{bad.returncode}, stderr {bad.stderr[-200:]!r}")
    ctx.nontrivial(True)


@st.composite
def geojson_cases(draw):
    return {"kind": draw(GEOJSON_CASES)}


SUBS = [
    Sub("bounds_grammar", lambda tier: bounds_strings(), check_bounds, quick=1500, thorough=20000),
    Sub("geojson_arguments", lambda tier: geojson_cases(), check_geojson_argument, quick=40, thorough=200),
    Sub("clip_command", lambda tier: command_cases("clip"), check_command, quick=130, thorough=400),
    Sub("extract_points_command", lambda tier: command_cases("extract-points"), check_command,
        quick=70, thorough=300),
    Sub("export_geometry_command", lambda tier: command_cases("export-geometry"), check_command,
        quick=40, thorough=200),
    Sub("failure_paths", lambda tier: command_cases("failure"), check_command, quick=25, thorough=100),
    Sub("subprocess", lambda tier: command_cases(), check_subprocess, quick=1, thorough=4, shrink=False),
]
MATCHERS = {}
