"""
C14 - triangulation exactly partitions every cell polygon.

Oracle: validity predicates (many triangulations are correct): per cell exactly n-2 triangles,
all built from that cell's own vertices, each covered by the cell, areas summing to the cell's
area and the union having the cell's area (so no overlap and no gap); nothing for cells without
geometry; vertex indexes valid; vertex list free of duplicates.
"""
import warnings

import numpy
import shapely
from hypothesis import strategies as st
from shapely.geometry import Polygon

from vf import refmodel, specs
from vf import strategies as S
from vf.common import import_emsarray
from vf.props._util import open_case
from vf.runner import Enum, Sub

PROPERTY = "C14"
RULE = (
    "Datasets of every convention (holes anywhere) and meshes mixing convex faces, concave "
    "polyomino faces (collinear vertices when the lattice is not jittered), star-shaped concave "
    "faces with 4-8 vertices, bow-tie faces (holes), 3-8 sides, clockwise and anticlockwise, every "
    "ring rotation. Non-trivial: the case has a concave face, a face with collinear vertices and "
    "more than one face size. Sub-check sparse_large_grids: 2-D CF / SHOC simple grids of 169-624 "
    "cells with geometry only in a window of at most 6 x 7 cells; non-trivial there = a cell with "
    "geometry at linear index >= 256. Every case triangulates twice (the first result's arrays "
    "are overwritten in between). Distinct = spec hash."
)
ASSUMPTIONS = [
    "areas are compared with relative tolerance 1e-9",
    "faces are simple polygons unless they are the bow-tie faces that emsarray drops",
]
TOL = 1e-9


def check_spec(spec, ctx):
    import_emsarray()
    from emsarray.operations.triangulate import triangulate_dataset
    ds, conv = open_case(spec)
    polygons = conv.polygons
    with warnings.catch_warnings():
        warnings.simplefilter("ignore")
        ctx.at("C14.triangulate")
        vertices, triangles, cell_indices = triangulate_dataset(ds)
    first = (numpy.array(vertices, copy=True), numpy.array(triangles, copy=True),
             numpy.array(cell_indices, copy=True))
    # history: the caller does what it likes with the arrays it was handed (here: overwrites
    # them where they are writeable) and triangulates the same dataset again - the answer is a
    # function of the dataset, so it is the same answer
    for arr in (vertices, triangles, cell_indices):
        if isinstance(arr, numpy.ndarray) and arr.flags.writeable and arr.size:
            arr[...] = 0
    with warnings.catch_warnings():
        warnings.simplefilter("ignore")
        ctx.at("C14.repeatable")
        second = triangulate_dataset(ds)
    ctx.check(all(numpy.array_equal(numpy.asarray(a), b) for a, b in zip(second, first)),
              "C14.repeatable",
              "triangulating the same dataset a second time (after the caller overwrote the first "
              "result's arrays) gives a different answer")
    vertices, triangles, cell_indices = first
    n_cells = len(polygons)
    ctx.check(len(triangles) == len(cell_indices), "C14.shape",
              lambda: f"{len(triangles)} triangles but {len(cell_indices)} cell indexes")
    ctx.check((vertices.size == 0 and len(triangles) == 0)
              or vertices.ndim == 2 and vertices.shape[1] == 2 and triangles.ndim == 2
              and (triangles.shape[1] == 3 or len(triangles) == 0), "C14.shape",
              lambda: f"vertices {vertices.shape}, triangles {triangles.shape}")
    if len(triangles):
        ctx.check(bool(numpy.all((triangles >= 0) & (triangles < len(vertices)))),
                  "C14.vertex_index_valid",
                  lambda: f"triangle vertex indexes outside [0, {len(vertices)}): {triangles.tolist()}")
        ctx.check(bool(numpy.all((cell_indices >= 0) & (cell_indices < n_cells))),
                  "C14.cell_index_valid", lambda: f"cell indexes {cell_indices.tolist()}")
    rows = {tuple(v) for v in vertices.tolist()}
    ctx.check(len(rows) == len(vertices), "C14.no_duplicate_vertices",
              lambda: f"{len(vertices)} vertex rows but only {len(rows)} distinct")

    by_cell = {}
    for t, c in zip(triangles.tolist(), cell_indices.tolist()):
        by_cell.setdefault(int(c), []).append(t)
    concave = collinear = False
    sizes = set()
    for n in range(n_cells):
        poly = polygons[n]
        mine = by_cell.get(n, [])
        if poly is None:
            ctx.check(not mine, "C14.holes_have_no_triangles",
                      lambda: f"cell {n} has no geometry but owns triangles {mine}")
            continue
        ring = [tuple(c) for c in poly.exterior.coords][:-1]
        # a vertex listed twice in a row is one corner of the cell, not two sides
        ring = [p for q, p in enumerate(ring) if p != ring[q - 1] or len(ring) == 1]
        k = len(ring)
        sizes.add(k)
        if len(poly.convex_hull.exterior.coords) - 1 != k:
            if poly.convex_hull.area - poly.area > TOL * poly.area:
                concave = True
            else:
                collinear = True
        if _has_collinear(ring):
            collinear = True
        ctx.check(len(mine) == k - 2, "C14.triangle_count",
                  lambda: f"cell {n} has {k} sides but {len(mine)} triangles (ring {ring})")
        area = poly.area
        total = 0.0
        shapes = []
        for tri in mine:
            pts = [tuple(vertices[v]) for v in tri]
            ctx.check(all(p in ring for p in pts), "C14.own_vertices",
                      lambda: f"triangle {pts} of cell {n} uses a point that is not a vertex of the "
                      f"cell {ring}")
            tp = Polygon(pts)
            total += tp.area
            if tp.area > 0:
                outside = tp.difference(poly).area
                ctx.check(outside <= TOL * area, "C14.inside_cell",
                          lambda: f"triangle {pts} of cell {n} sticks out of the cell by area {outside} "
                          f"(cell {ring})")
                shapes.append(tp)
        ctx.check(abs(total - area) <= TOL * area, "C14.areas_sum_to_cell",
                  lambda: f"triangles of cell {n} have total area {total}, the cell has {area} "
                  f"(ring {ring}, triangles {[[tuple(vertices[v]) for v in t] for t in mine]})")
        if shapes:
            union = shapely.unary_union(shapes).area
            ctx.check(abs(union - area) <= TOL * area, "C14.no_overlap_no_gap",
                      lambda: f"union of the triangles of cell {n} has area {union}, the cell has {area}")
    extra = sorted(set(by_cell) - set(range(n_cells)))
    ctx.check(not extra, "C14.cell_index_valid", lambda: f"triangles for unknown cells {extra}")
    ctx.label("conv:" + spec["conv"])
    if concave:
        ctx.label("has_concave_face")
    if collinear:
        ctx.label("has_collinear_vertices")
    if any(p is None for p in polygons):
        ctx.label("has_holes")
    ctx.nontrivial(concave and collinear and len(sizes) > 1)


def _has_collinear(ring):
    k = len(ring)
    for a in range(k):
        (x0, y0), (x1, y1), (x2, y2) = ring[a - 1], ring[a], ring[(a + 1) % k]
        if (x1 - x0) * (y2 - y0) - (y1 - y0) * (x2 - x0) == 0:
            return True
    return False


@st.composite
def star_mesh_spec(draw):
    m = draw(S.mesh_with_stars())
    if draw(st.integers(0, 2)) == 0:
        # a seam: two mesh nodes at the same position (parts of a mesh stitched together), one
        # face pointed at the copy; sometimes a further copy that no face uses
        k = draw(st.integers(0, len(m["nodes"]) - 1))
        users = [f for f, face in enumerate(m["faces"]) if k in face]
        m["nodes"].append(list(m["nodes"][k]))
        if users:
            f = users[draw(st.integers(0, len(users) - 1))]
            m["faces"][f] = [len(m["nodes"]) - 1 if n == k else n for n in m["faces"][f]]
        if draw(st.booleans()):
            m["nodes"].append(list(m["nodes"][k]))
    enc = draw(S.ugrid_encoding(supply=[], allow_transpose=True))
    geom = {"nodes": m["nodes"], "faces": m["faces"], "invalid": m["invalid"],
            "edges": specs.mesh_edges(m["faces"]), "enc": enc}
    return {"conv": "ugrid", "geom": geom, "extra": {}, "vars": [],
            "mode": draw(st.sampled_from(["raw", "decoded"]))}


def strategy(tier):
    return S.dataset_spec(with_vars=False, modes=("raw",), geom_kwargs={"twist": True})


@st.composite
def sparse_grid_spec(draw):
    """A 2-D CF grid of several hundred cells of which only a small window has geometry (a model
    grid that is mostly land): few triangles, large cell indexes."""
    nj, ni = draw(st.integers(13, 26)), draw(st.integers(13, 24))
    h, w = draw(st.integers(1, 6)), draw(st.integers(1, 7))
    # the window sits late in linear order more often than not
    j0 = draw(st.one_of(st.integers(0, nj - h), st.integers(max(0, nj - h - 3), nj - h)))
    i0 = draw(st.integers(0, ni - w))
    unit = 2.0 ** -draw(st.sampled_from([1, 2, 3]))
    x0, y0 = draw(st.integers(-40, 40)) * unit, draw(st.integers(-40, 40)) * unit
    nodes = [[[x0 + i * unit, y0 + j * unit] for i in range(ni + 1)] for j in range(nj + 1)]
    holes = [[not (j0 <= j < j0 + h and i0 <= i < i0 + w) for i in range(ni)] for j in range(nj)]
    punched = draw(st.lists(st.tuples(st.integers(0, h - 1), st.integers(0, w - 1)), max_size=3))
    for dj, di in punched:
        if h * w > len(punched):
            holes[j0 + dj][i0 + di] = True
    if all(all(r) for r in holes):
        holes[j0][i0] = False
    shoc = draw(st.booleans())
    geom = {"nodes": nodes, "holes": holes, "twisted": [], "bounds": draw(st.booleans()),
            "bad_bounds": None,
            "names": draw(st.sampled_from(S.SHOC_SIMPLE_NAMES if shoc else S.CF2D_NAMES)),
            "coords_as": draw(st.sampled_from(["coord", "var"])), "bounds_as": "var",
            "detect": "units", "decoy_first": False}
    return {"conv": "shoc_simple" if shoc else "cf2d", "geom": geom, "extra": {}, "vars": [],
            "mode": "raw", "bind": draw(st.sampled_from(["auto", "explicit"])), "warmup": []}


@st.composite
def signed_zero_spec(draw):
    """CF grids with stored per-cell bounds, moved so that an interior cell edge (1-D) or an
    interior corner (2-D) lies exactly on zero, where neighbouring cells store that zero with
    different signs."""
    if draw(st.booleans()):
        spec = draw(S.dataset_spec(convs=["cf1d"], with_vars=False, modes=("raw",),
                                   geom_kwargs={"bounds_kinds": ("contig",), "min_n": 2}))
        g = spec["geom"]
        for axis in ("lon", "lat"):
            rows = g[axis + "_bounds"]
            k = draw(st.integers(0, len(rows) - 2))
            edge = rows[k][1] if rows[k][1] in rows[k + 1] else rows[k][0]
            g[axis] = [v - edge for v in g[axis]]
            g[axis + "_bounds"] = [[a - edge, b - edge] for a, b in rows]
    else:
        spec = draw(S.dataset_spec(convs=["cf2d", "shoc_simple"], with_vars=False, modes=("raw",),
                                   geom_kwargs={"bounds": True, "holes": False}))
        g = spec["geom"]
        nodes = g["nodes"]
        j = draw(st.integers(0, len(nodes) - 1))
        i = draw(st.integers(0, len(nodes[0]) - 1))
        x0, y0 = nodes[j][i]
        g["nodes"] = [[[x - x0, y - y0] for x, y in row] for row in nodes]
    g["negative_zero"] = True
    return spec


@st.composite
def notched_polygon(draw, cx, cy):
    """A thin convex polygon (points of a parabola under a chord) with ONE deep notch cut into
    the chord: exactly one vertex off the convex hull, long edges at the notch, short ones
    elsewhere.  Integer construction, so the convex part is strictly convex exactly."""
    w = draw(st.sampled_from([6, 8, 12, 16, 24, 32]))
    inner = sorted(draw(st.lists(st.integers(1, w - 1), min_size=2, max_size=6, unique=True)))
    xs = [0] + inner + [w]
    chain = [(x, -x * (w - x)) for x in xs]                 # left to right along the parabola
    xn = draw(st.integers(1, w - 1))
    local = xn * (w - xn)
    deep = draw(st.sampled_from(["deep", "deep", "any"]))
    yn = draw(st.integers(max(1, (3 * local) // 4), local - 1)) if deep == "deep" and local > 4 \
        else draw(st.integers(1, max(1, local - 1)))
    if yn >= local:
        yn = local - 1
    if yn < 1:
        return None
    ring = chain + [(xn, -yn)]                               # back along the chord via the notch
    ux = 2.0 ** -draw(st.sampled_from([1, 2, 3]))
    uy = 2.0 ** -draw(st.sampled_from([4, 6, 8, 10]))
    swap = draw(st.booleans())
    sx, sy = draw(st.sampled_from([1, -1])), draw(st.sampled_from([1, -1]))
    pts = []
    for x, y in ring:
        px, py = sx * x * ux, sy * y * uy
        if swap:
            px, py = py, px
        pts.append([cx + px, cy + py])
    k = draw(st.integers(0, len(pts) - 1))
    pts = pts[k:] + pts[:k]
    if draw(st.booleans()):
        pts = pts[::-1]
    return pts


@st.composite
def notched_mesh_spec(draw):
    nodes, faces = [], []
    for k in range(draw(st.integers(1, 4))):
        ring = draw(notched_polygon(100.0 * k, -40.0))
        if ring is None:
            continue
        base = len(nodes)
        nodes.extend(ring)
        faces.append(list(range(base, base + len(ring))))
    if not faces:
        nodes = [[0.0, 0.0], [1.0, 0.0], [1.0, 1.0], [0.0, 1.0]]
        faces = [[0, 1, 2, 3]]
    enc = draw(S.ugrid_encoding(supply=[], allow_transpose=True))
    geom = {"nodes": nodes, "faces": faces, "invalid": [], "edges": specs.mesh_edges(faces), "enc": enc}
    return {"conv": "ugrid", "geom": geom, "extra": {}, "vars": [], "mode": "raw"}


def check_notched(spec, ctx):
    check_spec(spec, ctx)
    # how many of the faces have a notch so deep that the turn at the notch outweighs all the
    # other turns together (the sum of the vertex cross products then has the sign opposite to
    # the ring's winding) - the class where "which way is this ring wound" shortcuts go wrong
    dominated = 0
    g = spec["geom"]
    for face in g["faces"]:
        pts = [g["nodes"][n] for n in face]
        k = len(pts)
        turns = []
        for a in range(k):
            (x0, y0), (x1, y1), (x2, y2) = pts[a - 1], pts[a], pts[(a + 1) % k]
            turns.append((x1 - x0) * (y2 - y1) - (y1 - y0) * (x2 - x1))
        area2 = sum(pts[a][0] * pts[(a + 1) % k][1] - pts[(a + 1) % k][0] * pts[a][1] for a in range(k))
        if k >= 5 and sum(turns) * area2 < 0:
            dominated += 1
    ctx.label(f"faces_where_the_notch_turn_dominates:{min(dominated, 2)}")
    ctx.nontrivial(dominated >= 1)


def check_sparse(spec, ctx):
    check_spec(spec, ctx)
    holes = spec["geom"]["holes"]
    ni = len(holes[0])
    last = max(j * ni + i for j, row in enumerate(holes) for i, hole in enumerate(row) if not hole)
    ctx.label("last_cell_with_geometry>=256" if last >= 256 else "last_cell_with_geometry<256")
    ctx.nontrivial(last >= 256)


def mesh_strategy(tier):
    # (lattice units down to 2**-20, about 1e-6: cells whose sides are shorter than any
    # plausible "snap together" tolerance are still cells)
    return S.dataset_spec(convs=["ugrid"], with_vars=False, modes=("raw",),
                          geom_kwargs={"jitter": False, "unit_exps": (3, 3, 4, 10, 20, 20)})


def huge_grid_cases(tier):
    # more than 2**16 cells of one shape in one dataset (a 257 x 256 grid of rectangles)
    yield {"ny": 257, "nx": 256}
    if tier == "thorough":
        yield {"ny": 300, "nx": 300}


def check_huge_grid(case, ctx):
    """Vectorised version of the per-cell checks for a grid far too large to loop over: every
    cell owns exactly two triangles, they lie in the cell's box and add up to its area."""
    import_emsarray()
    import xarray
    from emsarray.operations.triangulate import triangulate_dataset
    ny, nx = case["ny"], case["nx"]
    lat = numpy.arange(ny, dtype=numpy.float64) * 0.25 - 30.0
    lon = numpy.arange(nx, dtype=numpy.float64) * 0.5 + 100.0
    ds = xarray.Dataset(coords={
        "lat": (["lat"], lat, {"units": "degrees_north"}), "lon": (["lon"], lon, {"units": "degrees_east"})},
        attrs={"Conventions": "CF-1.8"})
    ctx.at("C14.triangulate")
    with warnings.catch_warnings():
        warnings.simplefilter("ignore")
        vertices, triangles, cell_indices = (numpy.asarray(a) for a in triangulate_dataset(ds))
    n = ny * nx
    ctx.check(len(triangles) == 2 * n and len(cell_indices) == 2 * n, "C14.triangle_count",
              lambda: f"{len(triangles)} triangles / {len(cell_indices)} cell indexes for {n} four-sided cells")
    ctx.check(bool(numpy.all((cell_indices >= 0) & (cell_indices < n))), "C14.cell_index_valid",
              "cell indexes outside the grid")
    counts = numpy.bincount(cell_indices.astype(numpy.int64), minlength=n)
    bad = numpy.flatnonzero(counts != 2)
    ctx.check(bad.size == 0, "C14.triangle_count",
              lambda: f"{bad.size} cells do not own exactly two triangles (first: cell {int(bad[0])} owns {int(counts[bad[0]])})")
    pts = vertices[triangles]                                   # (T, 3, 2)
    j, i = numpy.divmod(cell_indices.astype(numpy.int64), nx)
    x_lo, x_hi = lon[i] - 0.25, lon[i] + 0.25
    y_lo, y_hi = lat[j] - 0.125, lat[j] + 0.125
    inside = ((pts[:, :, 0] >= x_lo[:, None] - 1e-9) & (pts[:, :, 0] <= x_hi[:, None] + 1e-9)
              & (pts[:, :, 1] >= y_lo[:, None] - 1e-9) & (pts[:, :, 1] <= y_hi[:, None] + 1e-9))
    out = numpy.flatnonzero(~inside.all(axis=1))
    ctx.check(out.size == 0, "C14.inside_cell",
              lambda: f"{out.size} triangles have a vertex outside the cell they name (first: triangle "
              f"{int(out[0])} {pts[out[0]].tolist()} for cell {int(cell_indices[out[0]])})")
    a, b, c = pts[:, 0], pts[:, 1], pts[:, 2]
    areas = 0.5 * numpy.abs((b[:, 0] - a[:, 0]) * (c[:, 1] - a[:, 1]) - (b[:, 1] - a[:, 1]) * (c[:, 0] - a[:, 0]))
    per_cell = numpy.zeros(n)
    numpy.add.at(per_cell, cell_indices.astype(numpy.int64), areas)
    wrong = numpy.flatnonzero(numpy.abs(per_cell - 0.125) > 1e-9)
    ctx.check(wrong.size == 0, "C14.areas_sum_to_cell",
              lambda: f"{wrong.size} cells whose triangles do not add up to the cell area (first: cell "
              f"{int(wrong[0])} has {per_cell[wrong[0]]})")
    ctx.label(f"cells:{n}")
    ctx.nontrivial(n > 2 ** 16)


SUBS = [
    Sub("datasets", strategy, check_spec, quick=150, thorough=800),
    Sub("polyomino_meshes", mesh_strategy, check_spec, quick=100, thorough=600),
    Sub("star_meshes", lambda tier: star_mesh_spec(), check_spec, quick=400, thorough=2000),
    Sub("notched_polygons", lambda tier: notched_mesh_spec(), check_notched, quick=150, thorough=1000),
    Sub("signed_zero_corners", lambda tier: signed_zero_spec(), check_spec, quick=30, thorough=200),
    Sub("sparse_large_grids", lambda tier: sparse_grid_spec(), check_sparse, quick=25, thorough=200),
]
ENUMS = [Enum("huge_uniform_grid", huge_grid_cases, check_huge_grid, exhaustive_in=("quick", "thorough"))]
MATCHERS = {}
