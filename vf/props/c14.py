"""
C14 - triangulation exactly partitions every cell polygon.

Oracle: validity predicates (many triangulations are correct): per cell exactly n-2 triangles,
all built from that cell's own vertices, each covered by the cell, areas summing to the cell's
area and the union having the cell's area (so no overlap and no gap); nothing for cells without
geometry; vertex indexes valid; vertex list free of duplicates.
"""
import warnings

import numpy
import shapely
from hypothesis import strategies as st
from shapely.geometry import Polygon

from vf import refmodel, specs
from vf import strategies as S
from vf.common import import_emsarray
from vf.props._util import open_case
from vf.runner import Sub

PROPERTY = "C14"
RULE = (
    "Datasets of every convention (holes anywhere) and meshes mixing convex faces, concave "
    "polyomino faces (collinear vertices when the lattice is not jittered), star-shaped concave "
    "faces with 4-8 vertices, bow-tie faces (holes), 3-8 sides, clockwise and anticlockwise, every "
    "ring rotation. Non-trivial: the case has a concave face, a face with collinear vertices and "
    "more than one face size. Distinct = spec hash."
)
ASSUMPTIONS = [
    "areas are compared with relative tolerance 1e-9",
    "faces are simple polygons unless they are the bow-tie faces that emsarray drops",
]
TOL = 1e-9


def check_spec(spec, ctx):
    import_emsarray()
    from emsarray.operations.triangulate import triangulate_dataset
    ds, conv = open_case(spec)
    polygons = conv.polygons
    with warnings.catch_warnings():
        warnings.simplefilter("ignore")
        ctx.at("C14.triangulate")
        vertices, triangles, cell_indices = triangulate_dataset(ds)
    vertices = numpy.asarray(vertices)
    triangles = numpy.asarray(triangles)
    cell_indices = numpy.asarray(cell_indices)
    n_cells = len(polygons)
    ctx.check(len(triangles) == len(cell_indices), "C14.shape",
              lambda: f"{len(triangles)} triangles but {len(cell_indices)} cell indexes")
    ctx.check((vertices.size == 0 and len(triangles) == 0)
              or vertices.ndim == 2 and vertices.shape[1] == 2 and triangles.ndim == 2
              and (triangles.shape[1] == 3 or len(triangles) == 0), "C14.shape",
              lambda: f"vertices {vertices.shape}, triangles {triangles.shape}")
    if len(triangles):
        ctx.check(bool(numpy.all((triangles >= 0) & (triangles < len(vertices)))),
                  "C14.vertex_index_valid",
                  lambda: f"triangle vertex indexes outside [0, {len(vertices)}): {triangles.tolist()}")
        ctx.check(bool(numpy.all((cell_indices >= 0) & (cell_indices < n_cells))),
                  "C14.cell_index_valid", lambda: f"cell indexes {cell_indices.tolist()}")
    rows = {tuple(v) for v in vertices.tolist()}
    ctx.check(len(rows) == len(vertices), "C14.no_duplicate_vertices",
              lambda: f"{len(vertices)} vertex rows but only {len(rows)} distinct")

    by_cell = {}
    for t, c in zip(triangles.tolist(), cell_indices.tolist()):
        by_cell.setdefault(int(c), []).append(t)
    concave = collinear = False
    sizes = set()
    for n in range(n_cells):
        poly = polygons[n]
        mine = by_cell.get(n, [])
        if poly is None:
            ctx.check(not mine, "C14.holes_have_no_triangles",
                      lambda: f"cell {n} has no geometry but owns triangles {mine}")
            continue
        ring = [tuple(c) for c in poly.exterior.coords][:-1]
        # a vertex listed twice in a row is one corner of the cell, not two sides
        ring = [p for q, p in enumerate(ring) if p != ring[q - 1] or len(ring) == 1]
        k = len(ring)
        sizes.add(k)
        if len(poly.convex_hull.exterior.coords) - 1 != k:
            if poly.convex_hull.area - poly.area > TOL * poly.area:
                concave = True
            else:
                collinear = True
        if _has_collinear(ring):
            collinear = True
        ctx.check(len(mine) == k - 2, "C14.triangle_count",
                  lambda: f"cell {n} has {k} sides but {len(mine)} triangles (ring {ring})")
        area = poly.area
        total = 0.0
        shapes = []
        for tri in mine:
            pts = [tuple(vertices[v]) for v in tri]
            ctx.check(all(p in ring for p in pts), "C14.own_vertices",
                      lambda: f"triangle {pts} of cell {n} uses a point that is not a vertex of the "
                      f"cell {ring}")
            tp = Polygon(pts)
            total += tp.area
            if tp.area > 0:
                outside = tp.difference(poly).area
                ctx.check(outside <= TOL * area, "C14.inside_cell",
                          lambda: f"triangle {pts} of cell {n} sticks out of the cell by area {outside} "
                          f"(cell {ring})")
                shapes.append(tp)
        ctx.check(abs(total - area) <= TOL * area, "C14.areas_sum_to_cell",
                  lambda: f"triangles of cell {n} have total area {total}, the cell has {area} "
                  f"(ring {ring}, triangles {[[tuple(vertices[v]) for v in t] for t in mine]})")
        if shapes:
            union = shapely.unary_union(shapes).area
            ctx.check(abs(union - area) <= TOL * area, "C14.no_overlap_no_gap",
                      lambda: f"union of the triangles of cell {n} has area {union}, the cell has {area}")
    extra = sorted(set(by_cell) - set(range(n_cells)))
    ctx.check(not extra, "C14.cell_index_valid", lambda: f"triangles for unknown cells {extra}")
    ctx.label("conv:" + spec["conv"])
    if concave:
        ctx.label("has_concave_face")
    if collinear:
        ctx.label("has_collinear_vertices")
    if any(p is None for p in polygons):
        ctx.label("has_holes")
    ctx.nontrivial(concave and collinear and len(sizes) > 1)


def _has_collinear(ring):
    k = len(ring)
    for a in range(k):
        (x0, y0), (x1, y1), (x2, y2) = ring[a - 1], ring[a], ring[(a + 1) % k]
        if (x1 - x0) * (y2 - y0) - (y1 - y0) * (x2 - x0) == 0:
            return True
    return False


@st.composite
def star_mesh_spec(draw):
    m = draw(S.mesh_with_stars())
    enc = draw(S.ugrid_encoding(supply=[], allow_transpose=True))
    geom = {"nodes": m["nodes"], "faces": m["faces"], "invalid": m["invalid"],
            "edges": specs.mesh_edges(m["faces"]), "enc": enc}
    return {"conv": "ugrid", "geom": geom, "extra": {}, "vars": [],
            "mode": draw(st.sampled_from(["raw", "decoded"]))}


def strategy(tier):
    return S.dataset_spec(with_vars=False, modes=("raw",), geom_kwargs={"twist": True})


def mesh_strategy(tier):
    return S.dataset_spec(convs=["ugrid"], with_vars=False, modes=("raw",),
                          geom_kwargs={"jitter": False})


SUBS = [
    Sub("datasets", strategy, check_spec, quick=150, thorough=800),
    Sub("polyomino_meshes", mesh_strategy, check_spec, quick=100, thorough=600),
    Sub("star_meshes", lambda tier: star_mesh_spec(), check_spec, quick=150, thorough=1000),
]
MATCHERS = {}
