"""
C19 - plot artists pair every value with its own cell.

Oracle: the spec.  Patch k of the collection must trace the polygon of the k-th cell that has
geometry (in linear order) and carry the value the spec stores at that cell (R-index + data
codes); colour limits must span exactly those values; arrows must sit at face_centres[n] with the
(u, v) the spec stores at cell n.
"""
import itertools
import math
import warnings

import numpy
from hypothesis import strategies as st

from vf import refmodel, specs
from vf import strategies as S
from vf.common import import_emsarray
from vf.props._util import expected_scalar, open_case, same_number
from vf.runner import Sub

PROPERTY = "C19"
RULE = (
    "Datasets of every convention (holes before valid cells, bow-tie mesh faces, meshes mixing "
    "3-8 sided faces) with face variables whose grid dimensions are in any order, with and "
    "without missing values and with or without an extra dimension x scalar given by name, as a "
    "DataArray, or not at all x overrides array= / clim= / transform= / extra PolyCollection "
    "keywords x vector pairs for make_quiver. Non-trivial: a hole precedes a cell with geometry "
    "and the variable's grid dimensions are permuted, or the mesh mixes face sizes. Distinct = "
    "case hash."
)
ASSUMPTIONS = [
    "artists are inspected without drawing them (paths, array, clim, stored transform, quiver "
    "X/Y/U/V); matplotlib Agg backend",
]


@st.composite
def cases(draw, convs=S.ALL_CONVS, invalid_cells=False):
    conv = draw(st.sampled_from(list(convs)))
    if invalid_cells:
        # 2-D grids with stored bounds, holes, and self-crossing cells among the later ones
        conv = draw(st.sampled_from(["cf2d", "shoc_simple"]))
        spec = {"conv": conv, "geom": draw(S.geometry(conv, max_n=4, bounds=True, twist="always"))}
    else:
        spec = {"conv": conv, "geom": draw(S.geometry(conv, max_n=4, max_j=3, max_i=3, twist=True))}
    n_grid = 1 if conv == "ugrid" else 2
    extra = {"tstep": draw(st.integers(1, 3))}
    spec["extra"] = extra
    n_faces = refmodel.grid_size(spec, "face")
    variables = []
    for k, name in enumerate(["s0", "u", "v", "with_extra"]):
        dims = [f"@{q}" for q in range(n_grid)]
        if name == "with_extra":
            dims = dims + ["tstep"]
        if name in ("u", "v"):
            perm = variables[1]["dims"] if name == "v" else list(draw(st.permutations(dims)))
        else:
            perm = list(draw(st.permutations(dims)))
        var = {"name": name, "kind": "face", "dims": perm,
               "dtype": draw(st.sampled_from(["f8", "f8", "f4", "i4"])), "fill": None}
        if var["dtype"] != "i4" and draw(st.booleans()):
            var["nan"] = sorted(set(draw(st.lists(st.integers(0, n_faces - 1), max_size=3))))
        variables.append(var)
    spec["vars"] = variables
    spec["mode"] = draw(st.sampled_from(["raw", "raw", "dask", "file"]))
    spec.update(draw(S.storage_options(conv)))
    return {
        "spec": spec,
        "given": draw(st.sampled_from(["name", "array", "derived", "none"])),
        "clim": draw(st.sampled_from([None, None, [-5.5, 17.25]])),
        "transform": draw(st.booleans()),
        "extra_kwargs": draw(st.booleans()),
        "array_override": draw(st.booleans()),
    }


def check_case(case, ctx):
    import_emsarray()
    import cartopy.crs
    from matplotlib.figure import Figure
    spec = case["spec"]
    ds, conv = open_case(spec)
    polygons = conv.polygons
    live = [n for n in range(len(polygons)) if polygons[n] is not None]
    if refmodel.cells_defined_by_statement(spec):
        # which cells have geometry is the dataset's business (the reference cells: corners
        # present and the ring not self-crossing), not whatever the polygon array says
        cells = refmodel.cells(spec)
        want_live = [n for n, c in enumerate(cells) if c is not None]
        ctx.check(live == want_live, "C19.one_patch_per_cell",
                  lambda: f"cells with a polygon: {live}; cells with geometry in the dataset: {want_live}")
    gd = specs.grid_dims(spec)["face"]
    var = spec["vars"][0]

    def stored(v, n):
        comps = refmodel.native_components(spec, "face", n)
        return expected_scalar(spec, v, dict(zip(gd, comps)))

    with warnings.catch_warnings():
        warnings.simplefilter("ignore")
        kwargs = {}
        supplied_transform = cartopy.crs.Geodetic() if case["transform"] else None
        if supplied_transform is not None:
            kwargs["transform"] = supplied_transform
        if case["clim"] is not None:
            kwargs["clim"] = tuple(case["clim"])
        if case["extra_kwargs"]:
            kwargs["edgecolor"] = "face"
            kwargs["linewidths"] = 0.5
        given = case["given"]
        if given == "name":
            args = (var["name"],)
        elif given == "array":
            args = (ds[var["name"]] * 1,)
        elif given == "derived":
            # an array computed from the variable (it still carries the variable's name, as
            # xarray arithmetic keeps it): what is plotted is the array that was handed over
            args = (ds[var["name"]].astype("float64") * 2 + 1,)
        else:
            args = ()
            if case["array_override"] and live:
                kwargs["array"] = numpy.arange(len(live), dtype=float)
        what = f"make_poly_collection({given}, {sorted(kwargs)}) on {spec['conv']}"
        if not live:
            ctx.label("no_geometry_at_all")
            return
        ctx.at("C19.poly_collection")
        pc = conv.make_poly_collection(*args, **kwargs)
        paths = pc.get_paths()
        ctx.check(len(paths) == len(live), "C19.one_patch_per_cell",
                  lambda: f"{what}: {len(paths)} patches for {len(live)} cells with geometry")
        reference_cells = refmodel.cells(spec) if refmodel.cells_defined_by_statement(spec) else None
        for k, n in enumerate(live[:len(paths)]):
            got = [tuple(float(c) for c in v) for v in paths[k].vertices]
            want = refmodel.polygon_ring(polygons[n])
            ctx.check(got == want, "C19.patch_outline",
                      lambda: f"{what}: patch {k} has vertices {got}; cell {n} has outline {want}")
            if reference_cells is not None and reference_cells[n] is not None:
                corners = {tuple(float(c) for c in p) for p in reference_cells[n]}
                ctx.check(set(got) == corners, "C19.patch_outline",
                          lambda: f"{what}: patch {k} has vertices {sorted(set(got))}; the dataset gives "
                          f"cell {n} the corners {sorted(corners)}")
        if given in ("name", "array", "derived"):
            arr = pc.get_array()
            ctx.check(arr is not None and len(arr) == len(live), "C19.patch_values",
                      lambda: f"{what}: array has {None if arr is None else len(arr)} values for "
                      f"{len(live)} patches")
            values = [stored(var, n) for n in live]
            if given == "derived":
                values = [float(v) * 2 + 1 for v in values]
            for k, n in enumerate(live):
                ctx.check(same_number(float(numpy.ma.filled(arr, numpy.nan)[k]), values[k]),
                          "C19.patch_values",
                          lambda: f"{what}: patch {k} (cell {n}) carries {arr[k]!r}; the cell stores "
                          f"{values[k]!r}")
            finite = [v for v in values if not (isinstance(v, float) and math.isnan(v))]
            if case["clim"] is not None:
                ctx.check(tuple(pc.get_clim()) == tuple(case["clim"]), "C19.clim",
                          lambda: f"{what}: clim = {pc.get_clim()}, supplied {case['clim']}")
            elif finite:
                want_clim = (min(finite), max(finite))
                got_clim = tuple(float(c) for c in pc.get_clim())
                ctx.check(got_clim == tuple(float(c) for c in want_clim), "C19.clim",
                          lambda: f"{what}: default clim = {got_clim}; the plotted values span {want_clim}")
        elif "array" in kwargs:
            arr = pc.get_array()
            ctx.check(arr is not None and list(arr) == list(kwargs["array"]), "C19.patch_values",
                      lambda: f"{what}: array= override not used: {arr}")
        stored_transform = getattr(pc, "_transform", None)
        if supplied_transform is not None:
            ctx.check(stored_transform is supplied_transform, "C19.transform",
                      lambda: f"{what}: supplied transform not used ({stored_transform!r})")
        else:
            ctx.check(stored_transform is conv.data_crs, "C19.transform",
                      lambda: f"{what}: default transform is {stored_transform!r}, not data_crs")

        # refusals
        ctx.at("C19.refusals")
        ctx.raises("C19.array_and_data_refused",
                   lambda: conv.make_poly_collection(var["name"], array=numpy.zeros(len(live))),
                   "data array together with array=", exc_types=TypeError)
        extra_var = spec["vars"][3]
        ctx.raises("C19.leftover_dimension_refused",
                   lambda: conv.make_poly_collection(extra_var["name"]),
                   f"variable {extra_var['name']} with dims {extra_var['dims']} (extra dimension of size "
                   f"{spec['extra']['tstep']})", exc_types=ValueError)

        # ---- quiver
        figure = Figure()
        axes = figure.add_subplot(projection=cartopy.crs.PlateCarree())
        u, v = spec["vars"][1], spec["vars"][2]
        ctx.at("C19.quiver")
        quiver = conv.make_quiver(axes, u["name"], ds[v["name"]])
        n_faces = len(polygons)
        # where the dataset itself stores the cell centres they are the reference, otherwise
        # the convention's own face_centres (checked against the polygons by C02)
        from vf.props.c02 import stored_centres
        centres = stored_centres(spec)
        if centres is None:
            centres = conv.face_centres
        ctx.check(quiver.N == n_faces, "C19.quiver_positions",
                  lambda: f"quiver has {quiver.N} arrows for {n_faces} cells")
        X = numpy.ma.filled(numpy.ma.asarray(quiver.X, dtype=float), numpy.nan)
        Y = numpy.ma.filled(numpy.ma.asarray(quiver.Y, dtype=float), numpy.nan)
        U = numpy.ma.filled(numpy.ma.asarray(quiver.U, dtype=float), numpy.nan)
        V = numpy.ma.filled(numpy.ma.asarray(quiver.V, dtype=float), numpy.nan)
        masked = numpy.ma.getmaskarray(numpy.ma.masked_array(U, mask=getattr(quiver, "Umask", numpy.ma.nomask)))
        for n in range(min(n_faces, quiver.N)):
            ctx.check(same_number(X[n], centres[n][0]) and same_number(Y[n], centres[n][1]),
                      "C19.quiver_positions",
                      lambda: f"arrow {n} sits at ({X[n]}, {Y[n]}); face_centres[{n}] = {tuple(centres[n])}")
            wu, wv = stored(u, n), stored(v, n)
            missing = any(isinstance(w, float) and math.isnan(w) for w in (wu, wv))
            if masked[n] or missing:
                # matplotlib hides an arrow when either component is missing (Umask) and stores
                # a placeholder in U / V
                ctx.check(bool(masked[n]) == missing, "C19.quiver_components",
                          lambda: f"arrow {n} masked={bool(masked[n])}; cell {n} stores ({wu}, {wv})")
                continue
            ctx.check(same_number(U[n], wu) and same_number(V[n], wv), "C19.quiver_components",
                      lambda: f"arrow {n} has components ({U[n]}, {V[n]}); cell {n} stores ({wu}, {wv})")
        # u scaled by the caller (same name, other values): the arrows carry the scaled values
        ctx.at("C19.quiver_components")
        scaled = conv.make_quiver(axes, ds[u["name"]].astype("float64") * 2 + 1, ds[v["name"]])
        U3 = numpy.ma.filled(numpy.ma.asarray(scaled.U, dtype=float), numpy.nan)
        hidden3 = numpy.ma.getmaskarray(numpy.ma.masked_array(U3, mask=getattr(scaled, "Umask", numpy.ma.nomask)))
        for n in range(min(n_faces, scaled.N)):
            wu, wv = stored(u, n), stored(v, n)
            if hidden3[n] or any(isinstance(w, float) and math.isnan(w) for w in (wu, wv)):
                continue
            ctx.check(same_number(U3[n], float(wu) * 2 + 1), "C19.quiver_components",
                      lambda: f"make_quiver(u*2+1, v): arrow {n} has u component {U3[n]}; cell {n} "
                      f"stores u = {wu}")
        if len(gd) == 2:
            # v handed over with its dimensions in the other order: refuse, or pair correctly
            flipped = ds[v["name"]].transpose(*reversed(ds[v["name"]].dims))
            ctx.at("C19.quiver_components")
            try:
                other = conv.make_quiver(axes, ds[u["name"]], flipped)
            except ValueError:
                ctx.label("quiver:mixed_order_refused")
            else:
                U2 = numpy.ma.filled(numpy.ma.asarray(other.U, dtype=float), numpy.nan)
                V2 = numpy.ma.filled(numpy.ma.asarray(other.V, dtype=float), numpy.nan)
                hidden = numpy.ma.getmaskarray(numpy.ma.masked_array(U2, mask=getattr(other, "Umask", numpy.ma.nomask)))
                for n in range(min(n_faces, other.N)):
                    wu, wv = stored(u, n), stored(v, n)
                    if hidden[n] or any(isinstance(w, float) and math.isnan(w) for w in (wu, wv)):
                        continue
                    ctx.check(same_number(U2[n], wu) and same_number(V2[n], wv), "C19.quiver_components",
                              lambda: f"u{tuple(ds[u['name']].dims)} with v{tuple(flipped.dims)}: arrow {n} has "
                              f"({U2[n]}, {V2[n]}); cell {n} stores ({wu}, {wv})")
        ctx.raises("C19.quiver_refusals",
                   lambda: conv.make_quiver(axes, extra_var["name"], extra_var["name"]),
                   "vector components with a leftover dimension", exc_types=ValueError)
        if list(extra_var["dims"]) != list(u["dims"]):
            ctx.raises("C19.quiver_refusals", lambda: conv.make_quiver(axes, u["name"], extra_var["name"]),
                       "vector components with different dimensions", exc_types=ValueError)

    seen_hole = hole_before = False
    for p in polygons:
        if p is None:
            seen_hole = True
        elif seen_hole:
            hole_before = True
    permuted = specs.var_dim_names(spec, var) != gd
    mixed = spec["conv"] == "ugrid" and len({len(f) for f in spec["geom"]["faces"]}) > 1
    ctx.label("conv:" + spec["conv"])
    ctx.label("given:" + case["given"])
    if hole_before:
        ctx.label("hole_before_cell")
    if mixed:
        ctx.label("mixed_face_sizes")
    ctx.nontrivial((hole_before and permuted) or mixed)


SUBS = [
    Sub("artists", lambda tier: cases(), check_case, quick=150, thorough=800),
    Sub("artists_meshes", lambda tier: cases(convs=["ugrid"]), check_case, quick=80, thorough=400),
    Sub("grids_with_invalid_cells", lambda tier: cases(invalid_cells=True), check_case, quick=40, thorough=250),
]
MATCHERS = {}
