"""
C17 - saving with the EMS fixes preserves data, geometry and time instants.

Oracles: (i) R-time - the reference instant of a unit string computed from the generated
components with datetime arithmetic, and an independent regular-expression parser for the EMS
output form; (ii) round trip: the file written through the save method is reopened with xarray and
compared with the source dataset; raw attributes are read with netCDF4.
"""
import datetime
import os
import re
import warnings

import netCDF4
import numpy
import xarray
from hypothesis import strategies as st

from vf import refmodel, specs
from vf import strategies as S
from vf.common import import_emsarray
from vf.props import c12
from vf.runner import Enum, Sub

PROPERTY = "C17"
RULE = (
    "(i) unit strings: periods {seconds, minutes, hours, days} x epochs 1700-2200 (any time of "
    "day) x UTC offsets on every quarter hour from -12:00 to +14:00 plus Z / none x spellings "
    "{'T' or space separator, with or without seconds, +HH:MM, +HHMM, +HH, optional space before "
    "the offset} x calendars {default, standard, gregorian, proleptic_gregorian}; the grid "
    "offsets x spellings x periods at a fixed epoch is enumerated completely. (ii) datasets of "
    "every convention with a time coordinate in such units (integer or fractional steps), saved "
    "through dataset.ems.to_netcdf or to_netcdf_with_fixes and reopened. Non-trivial: the offset "
    "is negative, or has a one-digit hour, or has minutes. Distinct = case hash."
)
ASSUMPTIONS = [
    "input offsets are written with two-digit, zero-padded hours, or Z, or omitted (cftime "
    "silently ignores one-digit-hour offsets, so their meaning is ambiguous)",
    "epochs lie between the years 1700 and 2200; time values are exactly representable in the "
    "chosen units",
]

EMS_FORM = re.compile(
    r"^(seconds|minutes|hours|days) since (\d{4})-(\d{2})-(\d{2}) (\d{2}):(\d{2}):(\d{2}) "
    r"([+-])(\d{1,2}):(\d{2})$")


def build_units(c):
    date = f"{c['y']:04d}-{c['mo']:02d}-{c['d']:02d}"
    clock = f"{c['h']:02d}:{c['mi']:02d}" + (f":{c['s']:02d}" if c["seconds"] else "")
    off = c["offset"]
    if off is None:
        tail = ""
    elif off == "Z":
        tail = (" " if c["space"] else "") + "Z"
    else:
        sign = "-" if off < 0 else "+"
        hh, mm = divmod(abs(off), 60)
        style = c["style"]
        if style == "+HH" and mm:
            style = "+HH:MM"
        text = {"+HH:MM": f"{sign}{hh:02d}:{mm:02d}", "+HHMM": f"{sign}{hh:02d}{mm:02d}",
                "+HH": f"{sign}{hh:02d}"}[style]
        tail = (" " if c["space"] else "") + text
    return f"{c['period']} since {date}{c['sep']}{clock}{tail}"


def reference_instant(c):
    off = c["offset"]
    minutes = 0 if off in (None, "Z") else off
    local = datetime.datetime(c["y"], c["mo"], c["d"], c["h"], c["mi"], c["s"] if c["seconds"] else 0)
    return local - datetime.timedelta(minutes=minutes)


def parse_ems(units):
    """(period, reference instant in UTC) of a string in the EMS form, or None."""
    m = EMS_FORM.match(units)
    if m is None:
        return None
    period, y, mo, d, h, mi, s, sign, oh, om = m.groups()
    try:
        local = datetime.datetime(int(y), int(mo), int(d), int(h), int(mi), int(s))
    except ValueError:
        return None
    minutes = (int(oh) * 60 + int(om)) * (-1 if sign == "-" else 1)
    return period, local - datetime.timedelta(minutes=minutes)


def check_units(c, ctx):
    import_emsarray()
    import cftime
    from emsarray import utils
    units = build_units(c)
    calendar = c["calendar"]
    ctx.at("C17.units_formatted")
    with warnings.catch_warnings():
        warnings.simplefilter("ignore")
        if calendar is None:
            out = utils.format_time_units_for_ems(units)
        else:
            out = utils.format_time_units_for_ems(units, calendar)
    parsed = parse_ems(out)
    ctx.check(parsed is not None, "C17.units_form",
              lambda: f"format_time_units_for_ems({units!r}) = {out!r} is not of the form "
              f"'<unit> since YYYY-MM-DD HH:MM:SS <signed offset>'")
    period, instant = parsed
    want = reference_instant(c)
    ctx.check(period == c["period"] and instant == want, "C17.units_same_instant",
              lambda: f"format_time_units_for_ems({units!r}) = {out!r} denotes {period} since "
              f"{instant} UTC; the input denotes {c['period']} since {want} UTC")
    with warnings.catch_warnings():
        warnings.simplefilter("ignore")
        cal = calendar or "proleptic_gregorian"
        a = cftime.num2pydate(0, out, cal)
        b = cftime.num2pydate(0, units, cal)
    ctx.check(a == b, "C17.units_same_instant_for_cftime",
              lambda: f"cftime reads {out!r} as {a} but the input {units!r} as {b}")
    off = c["offset"]
    ctx.label("offset:" + ("none" if off is None else "Z" if off == "Z" else
                           "negative" if off < 0 else "positive"))
    interesting = isinstance(off, int) and (off < 0 or abs(off) < 600 or off % 60)
    ctx.nontrivial(bool(interesting))


OFFSETS = [None, "Z"] + list(range(-720, 841, 15))


@st.composite
def unit_cases(draw, early_epochs=True):
    # (epochs before the Gregorian reform only with the proleptic Gregorian calendar, which is
    # the calendar of Python's datetime - the reference - and emsarray's default)
    y = draw(st.one_of(st.integers(1700, 2200), st.integers(1700, 2200), st.integers(1000, 1699))
             if early_epochs else st.integers(1700, 2200))
    mo = draw(st.integers(1, 12))
    d = draw(st.integers(1, 28))
    return {
        "period": draw(st.sampled_from(["seconds", "minutes", "hours", "days"])),
        "y": y, "mo": mo, "d": d,
        "h": draw(st.integers(0, 23)), "mi": draw(st.integers(0, 59)), "s": draw(st.integers(0, 59)),
        "seconds": draw(st.booleans()), "sep": draw(st.sampled_from([" ", "T"])),
        "offset": draw(st.sampled_from(OFFSETS)),
        "style": draw(st.sampled_from(["+HH:MM", "+HH:MM", "+HHMM", "+HH"])),
        "space": draw(st.booleans()),
        "calendar": draw(st.sampled_from([None, None, "standard", "gregorian", "proleptic_gregorian"]
                                         if y >= 1700 else [None, "proleptic_gregorian"])),
    }


def unit_grid(tier):
    for period in ("seconds", "minutes", "hours", "days"):
        for off in OFFSETS:
            for sep in (" ", "T"):
                for style in ("+HH:MM", "+HHMM", "+HH"):
                    for space in (True, False):
                        if off in (None, "Z") and style != "+HH:MM":
                            continue
                        if isinstance(off, int) and style == "+HH" and off % 60:
                            continue
                        yield {"period": period, "y": 1990, "mo": 1, "d": 1, "h": 13, "mi": 45, "s": 7,
                               "seconds": True, "sep": sep, "offset": off, "style": style,
                               "space": space, "calendar": None}


# ---- (ii) whole datasets ---------------------------------------------------------------------

@st.composite
def dataset_cases(draw, meshes_as_on_disk=False):
    conv = "ugrid" if meshes_as_on_disk else draw(st.sampled_from(list(S.ALL_CONVS) + ["ugrid", "ugrid"]))
    spec = {"conv": conv, "geom": draw(S.geometry(conv, max_n=3, max_j=2, max_i=3 if meshes_as_on_disk else 2,
                                                   allow_bowtie=False))}
    u = draw(unit_cases(early_epochs=False))      # (time stamps are numpy datetime64[ns] here)
    u["calendar"] = None
    tname, tdim = c12.TIME_NAMES.get(conv, ("time", "time"))
    time_as = "coord"
    if conv == "shoc_simple" and draw(st.booleans()):
        tdim, time_as = "record", "var"       # time(record), a plain data variable
    # (an unlimited record dimension with no records yet has length 0)
    nt = draw(st.sampled_from([0, 1, 2, 3, 4, 1, 2, 3]))
    step = draw(st.sampled_from([1, 1, 2, 0.5, 0.125]))
    spec["time"] = {"name": tname, "dim": tdim, "units": build_units(u),
                    "values": [k * step for k in range(nt)],
                    "dtype": "f8" if isinstance(step, float) else draw(st.sampled_from(["f8", "i4"])),
                    "calendar": draw(st.sampled_from([None, None, "standard", "gregorian",
                                                      "proleptic_gregorian"])),
                    "as": time_as,
                    "bounds": draw(st.integers(0, 2)) == 0}
    spec["extra"] = {tdim: nt}
    shapes = specs.grid_shapes(spec)
    n_grid = 1 if conv == "ugrid" else 2
    variables = []
    for k in range(draw(st.integers(1, 3))):
        kind = draw(st.sampled_from(list(shapes)))
        dims = [f"@{q}" for q in range(n_grid)]
        if draw(st.booleans()):
            dims = [tdim] + dims
        dtype = draw(st.sampled_from(["f8", "f4", "i4", "i2"]))
        fill = None
        if dtype in ("i4", "i2") and draw(st.booleans()):
            fill = ["_FillValue", -999]
        var = {"name": f"v{k}", "kind": kind, "dims": list(draw(st.permutations(dims))),
               "dtype": dtype, "fill": fill}
        if dtype in ("f8", "f4") and draw(st.booleans()):
            var["nan"] = [0]
        variables.append(var)
    spec["vars"] = variables
    spec["mode"] = "raw" if meshes_as_on_disk else draw(st.sampled_from(["decoded", "decoded", "raw"]))
    return {"spec": spec, "units": u, "route": draw(st.sampled_from(["ems", "ems", "utils"])),
            "scalar_time": draw(st.integers(0, 3)) == 0,
            "retime": draw(st.integers(0, 2)) == 0}


def check_dataset(case, ctx):
    import_emsarray()
    from emsarray import utils
    spec = case["spec"]
    with warnings.catch_warnings():
        warnings.simplefilter("ignore")
        ds = specs.build(spec)
        tname = spec["time"]["name"]
        if case.get("scalar_time") and spec["mode"] != "raw" and spec["time"]["values"]:
            # a single time step selected out of the series: the time coordinate is a scalar
            ds = ds.isel({spec["time"]["dim"]: 0})
        retimed = False
        shift = {"days": numpy.timedelta64(6, "h"), "hours": numpy.timedelta64(30, "m"),
                 "minutes": numpy.timedelta64(15, "s")}.get(case["units"]["period"])
        whole = all(float(v).is_integer() for v in spec["time"]["values"])
        if case.get("retime") and shift is not None and whole and spec["mode"] != "raw":
            # the series was moved by a fraction of its unit after it was read (resampled,
            # re-centred ...) while the variable still carries the encoding it came with, now
            # asking for integers: the requested unit cannot hold the instants any more and the
            # writer has to pick a finer one
            old = ds[tname]
            encoding = dict(old.encoding)
            encoding["dtype"] = numpy.dtype("int32")
            moved = xarray.Variable(old.dims, old.values + shift, dict(old.attrs))
            ds = ds.assign_coords({tname: moved}) if tname in ds.coords else ds.assign({tname: moved})
            ds[tname].encoding.update(encoding)
            retimed = True
        conv = specs.bind_convention(spec, ds)
        before = list(conv.polygons)
        with specs.scratch_dir() as tmp:
            path = os.path.join(tmp, "saved.nc")
            ctx.at("C17.save")
            if case["route"] == "ems":
                conv.to_netcdf(path)
            else:
                utils.to_netcdf_with_fixes(ds, path, time_variable=tname)
            what = f"{spec['conv']} dataset, time units {spec['time']['units']!r}, via {case['route']}"
            with ctx.using("C17.reopen", f"reopening the file written for {what}"):
                with xarray.open_dataset(path) as reopened:
                    reopened.load()
            with netCDF4.Dataset(path) as nc:
                nc.set_auto_mask(False)
                raw_units = nc.variables[tname].getncattr("units")
                fill_attrs = {name: ("_FillValue" in var.ncattrs()) for name, var in nc.variables.items()}
        # convention and geometry
        ctx.at("C17.same_convention")
        from vf.props.c09 import bind_like
        re_conv = bind_like(spec, reopened)
        ctx.check(type(re_conv).__name__ == specs.EXPECTED_CLASS[spec["conv"]], "C17.same_convention",
                  lambda: f"{what}: reopened as {type(re_conv).__name__}")
        after = list(re_conv.polygons)
        ctx.check(len(after) == len(before) and all(
            (a is None and b is None) or (a is not None and b is not None and a.equals_exact(b, 0))
            for a, b in zip(after, before)), "C17.polygons_identical", f"{what}: polygons changed")
        # values
        # a dataset held as it sits on disk (numeric time, fill values as attributes) is
        # compared through the same CF decoding that reopening the written file applies
        meaning = xarray.decode_cf(ds) if spec["mode"] == "raw" else ds
        for name in ds.variables:
            ctx.check(name in reopened.variables, "C17.values_identical",
                      lambda: f"{what}: variable {name} is missing after the round trip")
            a, b = meaning[name].values, reopened[name].values
            same = a.shape == b.shape and (
                numpy.array_equal(a, b, equal_nan=True) if a.dtype.kind in "fc" or b.dtype.kind in "fc"
                else numpy.array_equal(a, b))
            clause = "C17.time_instants" if name == tname else "C17.values_identical"
            ctx.check(same, clause, lambda: f"{what}: {name} changed: {a.tolist()} -> {b.tolist()}")
        # time units attribute.  (By the documented rule a time coordinate is a variable xarray
        # has decoded to datetimes: an undecoded dataset saved through the accessor has none, so
        # nothing is promised about its units; the utils route names the variable itself.)
        if spec["mode"] == "raw" and case["route"] == "ems":
            ctx.label("undecoded_time_via_accessor:units_not_asserted")
        else:
            parsed = parse_ems(raw_units)
            ctx.check(parsed is not None, "C17.units_form",
                      lambda: f"{what}: units written to the file: {raw_units!r}")
            want = reference_instant(case["units"])
            # (a re-timed series may legitimately be written in a finer unit: there the instants
            # themselves, compared above, are the evidence)
            # (an empty series stores no numbers: which unit the writer names is then immaterial)
            empty = not spec["time"]["values"]
            ctx.check(retimed or empty or (parsed[1] == want and parsed[0] == case["units"]["period"]),
                      "C17.units_same_instant",
                      lambda: f"{what}: file says {raw_units!r} = {parsed[0]} since {parsed[1]} UTC; the "
                      f"source means {case['units']['period']} since {want} UTC")
        # fill values
        for name, has_fill in fill_attrs.items():
            if name not in ds.variables:
                continue
            src = ds[name]
            had = "_FillValue" in src.attrs or src.encoding.get("_FillValue") is not None
            ctx.check(not has_fill or had, "C17.no_new_fill_value",
                      lambda: f"{what}: variable {name} gained a _FillValue attribute in the file")
    off = case["units"]["offset"]
    ctx.label("conv:" + spec["conv"])
    ctx.label("route:" + case["route"])
    ctx.label("time_dtype:" + spec["time"]["dtype"])
    ctx.label(f"calendar:{spec['time'].get('calendar')}")
    ctx.label("mode:" + spec["mode"])
    if case.get("scalar_time") and spec["mode"] != "raw" and spec["time"]["values"]:
        ctx.label("scalar_time_coordinate")
    if not spec["time"]["values"]:
        ctx.label("empty_time_dimension")
    if spec["time"].get("as") == "var":
        ctx.label("time_is_a_data_variable")
    if spec["time"].get("bounds"):
        ctx.label("time_bounds_variable")
    if retimed:
        ctx.label("retimed_series_with_integer_encoding")
    ctx.nontrivial(isinstance(off, int) and (off < 0 or abs(off) < 600 or off % 60 != 0))


SUBS = [
    Sub("time_units", lambda tier: unit_cases(), check_units, quick=1500, thorough=20000),
    Sub("datasets", lambda tier: dataset_cases(), check_dataset, quick=100, thorough=500),
    # meshes built in memory the way they sit on disk (integer tables, fill value as an attribute,
    # any index base): the saved file is decoded when reopened, the source is not
    Sub("meshes_held_as_on_disk", lambda tier: dataset_cases(meshes_as_on_disk=True), check_dataset,
        quick=40, thorough=300),
]
ENUMS = [Enum("offset_grid", unit_grid, check_units, exhaustive_in=("quick", "thorough"))]
MATCHERS = {}
