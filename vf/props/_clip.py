"""
Shared machinery for the clipping properties (C08, C09): case strategy, running a clip through
one of the three routes, and the reference selection (R-clip) computed from the spec.
"""
import os
import warnings

import numpy
import shapely
import xarray
from hypothesis import strategies as st

from vf import refmodel, specs
from vf import strategies as S
from vf.props import c04, c07
from vf.props._util import changed_variables, snapshot


@st.composite
def clip_cases(draw, convs=S.ALL_CONVS, mesh_coords_as=None, max_vars=4):
    geom_kwargs = {"max_n": 5, "allow_bowtie": False}
    if mesh_coords_as is not None:
        geom_kwargs["enc"] = draw(S.ugrid_encoding(coords_as=mesh_coords_as))
    spec = draw(S.dataset_spec(convs=convs, max_vars=max_vars, min_vars=2, max_extra=2,
                               modes=("raw", "raw", "decoded", "netcdf", "dask", "file"),
                               geom_kwargs=geom_kwargs))
    return {
        "spec": spec,
        "geom": draw(c07.GEOM),
        "buffer": draw(st.sampled_from([0, 0, 1, 1, 2])),
        "route": draw(st.sampled_from(["clip", "clip_after_other_buffer", "make_apply", "apply_twice", "saved_mask_second_dataset"])),
        "subset": draw(st.lists(st.integers(0, 7), max_size=3)),
    }


class Selection:
    """Reference selection for one case: which cells / edges / nodes are kept, crop windows."""

    def __init__(self, spec, conv, base, buffer):
        self.spec = spec
        self.conv_name = spec["conv"]
        shapes = specs.grid_shapes(spec)
        self.marks = {}      # kind -> set of kept linear indexes (mesh) or 2-D bool rows (grid)
        self.windows = {}    # kind -> [(lo, hi), (lo, hi)] per grid dimension (grids only)
        if self.conv_name == "ugrid":
            g = spec["geom"]
            faces = g["faces"]
            kept = c07.expected_mesh_faces(spec, base, buffer)
            self.marks["face"] = kept
            self.marks["node"] = sorted({k for f in kept for k in faces[f]})
            if specs.ugrid_has_edge_dim(g):
                want_pairs = set()
                for f in kept:
                    ring = faces[f]
                    for c in range(len(ring)):
                        a, b = ring[c], ring[(c + 1) % len(ring)]
                        want_pairs.add((min(a, b), max(a, b)))
                pair_of = [tuple(sorted(int(v) for v in row))
                           for row in numpy.ma.getdata(conv.topology.edge_node_array)]
                self.edge_pairs = pair_of
                self.marks["edge"] = [e for e, pair in enumerate(pair_of) if pair in want_pairs]
            return
        face = c07.expected_grid_mask(spec, base, buffer)
        rows = {"face": face}
        if self.conv_name in ("arakawa", "shoc_standard"):
            rows["left"], rows["back"], rows["node"] = refmodel.c_grid_masks(face)
        for kind, m in rows.items():
            self.marks[kind] = m
            js = [j for j, row in enumerate(m) if any(row)]
            is_ = [i for i in range(len(m[0])) if any(row[i] for row in m)]
            self.windows[kind] = [(min(js), max(js) + 1), (min(is_), max(is_) + 1)]

    def is_mesh(self):
        return self.conv_name == "ugrid"

    def kept_positions(self, kind):
        """For meshes: original index of every kept row, in result order."""
        return list(self.marks[kind])

    def window_cells(self, kind):
        """For grids: list over result (j, i) of (orig_j, orig_i, selected)."""
        (j0, j1), (i0, i1) = self.windows[kind]
        m = self.marks[kind]
        return [[(j, i, m[j][i]) for i in range(i0, i1)] for j in range(j0, j1)]


def base_set(spec, polygons, geom):
    n_faces = refmodel.grid_size(spec, "face")
    return {n for n in range(n_faces) if polygons[n] is not None and polygons[n].intersects(geom)}


def run_clip(ctx, clause, case, ds, conv, geom, workdir):
    """Clip through the requested route.  Returns (result dataset loaded in memory, the spec the
    data came from).  For the history route the mask is made on ``ds``, saved, reopened and
    applied to a second dataset with the same geometry and different data."""
    spec = case["spec"]
    route = case["route"]
    buffer = case["buffer"]
    work = os.path.join(workdir, "work")
    os.makedirs(work, exist_ok=True)
    ctx.at(clause)
    with warnings.catch_warnings():
        warnings.simplefilter("ignore")
        if route == "clip":
            out = conv.clip(geom, work, buffer=buffer)
            source = spec
        elif route == "clip_after_other_buffer":
            # history: the same dataset object was clipped before, with an equal geometry and
            # another buffer; the result examined is the second one
            first_dir = os.path.join(workdir, "first")
            os.makedirs(first_dir, exist_ok=True)
            other = buffer + 1 if buffer == 0 else buffer - 1
            first = conv.clip(shapely.from_wkb(geom.wkb), first_dir, buffer=other)
            first.load()
            first.close()
            out = conv.clip(geom, work, buffer=buffer)
            source = spec
        elif route in ("make_apply", "apply_twice"):
            mask = conv.make_clip_mask(geom, buffer=buffer)
            before = snapshot(mask)
            if route == "apply_twice":
                # history: the same mask object is applied a second time; the result examined
                # is the second one
                first_dir = os.path.join(workdir, "first")
                os.makedirs(first_dir, exist_ok=True)
                first = conv.apply_clip_mask(mask, first_dir)
                first.load()
                first.close()
            out = conv.apply_clip_mask(mask, work)
            source = spec
            touched = changed_variables(mask, before)
            prop = clause.split(".")[0]
            ctx.check(not touched, prop + ".mask_untouched",
                      lambda: f"apply_clip_mask changed the caller's mask dataset: {touched}")
        else:
            mask = conv.make_clip_mask(geom, buffer=buffer)
            mask_path = os.path.join(workdir, "mask.nc")
            mask.to_netcdf(mask_path)
            source = dict(spec, code_offset=17000)
            ds2 = specs.build(source)
            conv2 = specs.bind_convention(source, ds2)
            with xarray.open_dataset(mask_path) as saved:
                saved.load()
            out = conv2.apply_clip_mask(saved, work)
        with ctx.using(clause, f"loading the clipped dataset ({route})"):
            out = out.load()
            out.close()
    return out, source
