"""
C11 - convention detection and binding are deterministic and stable.

Oracles: R-detect - a table-driven restatement of the documented detection rules evaluated on the
dataset's own attributes (never calling check_dataset); for registration orders a stable
max-by-specificity over (manually registered in order, then built-ins); for histories a model
that remembers which convention object is attached to which dataset object.
"""
import copy
import warnings

import numpy
import xarray
from hypothesis import strategies as st

from vf import specs
from vf import strategies as S
from vf.common import import_emsarray
from vf.runner import Sub

PROPERTY = "C11"
RULE = (
    "(i) datasets of every convention and their near-misses (Conventions marker removed / "
    "changed, cf_role removed, topology_dimension 1/3/absent, ems_version removed, j/i renamed, "
    "one SHOC coordinate variable removed, detection attribute removed from latitude or "
    "longitude, latitude and longitude of different rank, nothing recognisable) - detection must "
    "equal R-detect, be repeatable, unaffected by deep copies and by registry activity elsewhere; "
    "(ii) 0-4 synthetic conventions with drawn specificities registered in drawn orders (with "
    "duplicates) in a fresh registry; (iii) operation sequences of length <= 30 over up to 4 "
    "live datasets from {access .ems, construct+bind, bind a second time, shallow/deep copy, "
    "detect}. Non-trivial: a near-miss, a specificity tie, or a history containing a copy and a "
    "bind on both objects. Distinct = case hash."
)
ASSUMPTIONS = [
    "the generic ArakawaC class has no coordinate names and therefore never auto-detects "
    "(documented); it is exercised through explicit construction and bind()",
    "built-in conventions do not tie with each other on generated datasets (SHOC / UGRID markers "
    "are never combined in one dataset)",
]

LAT_UNITS = {"degrees_north", "degree_north", "degree_N", "degrees_N", "degreeN", "degreesN"}
LON_UNITS = {"degrees_east", "degree_east", "degree_E", "degrees_E", "degreeE", "degreesE"}
SHOC_NAMES = ["y_centre", "x_centre", "y_left", "x_left", "y_back", "x_back", "y_grid", "x_grid"]
SPEC = {"LOW": 10, "MEDIUM": 20, "HIGH": 30}


def r_detect(ds):
    """Expected list of (class name, specificity) for the built-in conventions, by the documented
    rules, in entry point order."""
    out = []
    lat = next((v for v in ds.variables.values()
                if v.attrs.get("units") in LAT_UNITS or v.attrs.get("standard_name") == "latitude"
                or v.attrs.get("axis") == "Y"), None)
    lon = next((v for v in ds.variables.values()
                if v.attrs.get("units") in LON_UNITS or v.attrs.get("standard_name") == "longitude"
                or v.attrs.get("axis") == "X"), None)
    if lat is not None and lon is not None:
        if lat.ndim == 1 and lon.ndim == 1:
            out.append(("CFGrid1D", 10))
        if lat.ndim == 2 and lon.ndim == 2:
            out.append(("CFGrid2D", 10))
    if "ems_version" in ds.attrs and {"j", "i"} <= set(ds.dims):
        out.append(("ShocSimple", 30))
    if all(name in ds.variables for name in SHOC_NAMES):
        out.append(("ShocStandard", 30))
    if "UGRID" in str(ds.attrs.get("Conventions", "")):
        mesh = next((v for v in ds.data_vars.values()
                     if v.attrs.get("cf_role") == "mesh_topology"), None)
        if mesh is not None and mesh.attrs.get("topology_dimension") == 2:
            out.append(("UGrid", 30))
    return out


BUILTIN_NAMES = ["CFGrid1D", "CFGrid2D", "ShocSimple", "ShocStandard", "UGrid"]


def winner(matches):
    best = None
    for name, spec in matches:
        if best is None or spec > best[1]:
            best = (name, spec)
    return None if best is None else best[0]


# ---- near misses ------------------------------------------------------------------------------

MUTATIONS = ["none", "drop_conventions", "other_conventions", "drop_cf_role", "topology_dimension_1",
             "topology_dimension_3", "drop_topology_dimension", "drop_ems_version", "rename_ji", "rename_i_only", "rename_j_only",
             "add_rotated_pole_index_coordinates", "add_rotated_pole_index_coordinates",
             "drop_shoc_coordinate", "strip_lat_attrs", "strip_lon_attrs", "mixed_rank",
             "nothing"]


def mutate(ds, spec, mutation, pick):
    """Apply a near-miss mutation to a built dataset (returns a new dataset, or the same one
    when the mutation does not apply to this convention)."""
    conv = spec["conv"]
    ds = ds.copy()
    if mutation == "drop_conventions":
        ds.attrs.pop("Conventions", None)
    elif mutation == "other_conventions":
        ds.attrs["Conventions"] = "CF-1.8"
    elif mutation in ("drop_cf_role", "topology_dimension_1", "topology_dimension_3",
                      "drop_topology_dimension") and conv == "ugrid":
        name = spec["geom"]["enc"]["names"]["mesh"]
        attrs = dict(ds[name].attrs)
        if mutation == "drop_cf_role":
            attrs.pop("cf_role", None)
        elif mutation == "drop_topology_dimension":
            attrs.pop("topology_dimension", None)
        else:
            attrs["topology_dimension"] = 1 if mutation.endswith("1") else 3
        ds[name].attrs = attrs
    elif mutation == "drop_ems_version":
        ds.attrs.pop("ems_version", None)
    elif mutation == "rename_ji" and conv == "shoc_simple":
        ds = ds.rename_dims({"j": "jj", "i": "ii"})
    elif mutation in ("rename_i_only", "rename_j_only") and conv == "shoc_simple":
        # a near miss: ems_version and only ONE of the two dimension names SHOC simple requires
        ds = ds.rename_dims({"i": "ii"} if mutation == "rename_i_only" else {"j": "jj"})
    elif mutation == "add_rotated_pole_index_coordinates":
        # 1-D index coordinates of a rotated-pole / curvilinear grid, listed before everything
        # else.  Their standard names CONTAIN 'latitude' / 'longitude' but are other names.
        dims = [d for d in ds.dims]
        if len(dims) >= 2:
            first = {
                "rlat": xarray.Variable((dims[0],), numpy.arange(ds.sizes[dims[0]], dtype="float64"),
                                        {"standard_name": "grid_latitude", "units": "degrees"}),
                "rlon": xarray.Variable((dims[1],), numpy.arange(ds.sizes[dims[1]], dtype="float64"),
                                        {"standard_name": "grid_longitude", "units": "degrees"}),
            }
            data_vars = dict(first)
            data_vars.update({k: ds.variables[k] for k in ds.data_vars})
            ds = xarray.Dataset(data_vars=data_vars,
                                coords={k: ds.variables[k] for k in ds.coords}, attrs=ds.attrs)
    elif mutation == "drop_shoc_coordinate" and conv == "shoc_standard":
        ds = ds.drop_vars(SHOC_NAMES[pick % len(SHOC_NAMES)])
    elif mutation in ("strip_lat_attrs", "strip_lon_attrs"):
        keys = ("units", "standard_name", "axis")
        units = LAT_UNITS if mutation == "strip_lat_attrs" else LON_UNITS
        std = "latitude" if mutation == "strip_lat_attrs" else "longitude"
        axis = "Y" if mutation == "strip_lat_attrs" else "X"
        for name in list(ds.variables):
            attrs = ds[name].attrs
            if attrs.get("units") in units or attrs.get("standard_name") == std or attrs.get("axis") == axis:
                ds[name].attrs = {k: v for k, v in attrs.items() if k not in keys}
    elif mutation == "mixed_rank":
        ds = xarray.Dataset({
            "lat": (("y",), numpy.arange(3.0), {"units": "degrees_north"}),
            "lon": (("y", "x"), numpy.zeros((3, 2)), {"units": "degrees_east"}),
            "v": (("y", "x"), numpy.zeros((3, 2)))})
    elif mutation == "nothing":
        ds = xarray.Dataset({"v": (("a", "b"), numpy.zeros((2, 3)))}, attrs={"title": "nothing"})
    return ds


def check_detection(case, ctx):
    emsarray = import_emsarray()
    spec = case["spec"]
    with warnings.catch_warnings():
        warnings.simplefilter("ignore")
        ds = mutate(specs.build(spec), spec, case["mutation"], case["pick"])
        expected = winner(r_detect(ds))
        ctx.at("C11.detect")
        got = emsarray.get_dataset_convention(ds)
        name = None if got is None else got.__name__
        what = f"{spec['conv']} dataset with mutation {case['mutation']}"
        ctx.check(name == expected, "C11.detect",
                  lambda: f"{what}: detected {name}, the documented rules give {expected} "
                  f"(matches {r_detect(ds)})")
        again = emsarray.get_dataset_convention(ds)
        ctx.check(again is got, "C11.detect_repeatable", f"{what}: second detection gave {again}")
        clone = ds.copy(deep=True)
        ctx.check(emsarray.get_dataset_convention(clone) is got, "C11.detect_content_only",
                  f"{what}: a deep copy is detected differently")
        # registry activity elsewhere must not matter
        from emsarray.conventions._registry import ConventionRegistry
        other = ConventionRegistry()
        other.add_convention(type("Elsewhere", (emsarray.conventions.CFGrid1D,), {}))
        other.guess_convention(ds)
        ctx.check(emsarray.get_dataset_convention(ds) is got, "C11.detect_repeatable",
                  f"{what}: detection changed after activity on another registry")
        ctx.at("C11.accessor")
        if expected is None:
            ctx.raises("C11.refuse_unknown", lambda: ds.ems, f"{what}: .ems on a dataset nothing matches",
                       exc_types=RuntimeError)
        else:
            first = ds.ems
            ctx.check(type(first).__name__ == expected, "C11.accessor",
                      lambda: f"{what}: .ems is a {type(first).__name__}, expected {expected}")
            ctx.check(ds.ems is first, "C11.accessor_cached", f"{what}: .ems returned a new object")
    ctx.label("mutation:" + case["mutation"])
    ctx.label(f"detected:{expected}")
    ctx.nontrivial(case["mutation"] != "none")


# ---- registration orders ------------------------------------------------------------------------

def check_registration(case, ctx):
    emsarray = import_emsarray()
    from emsarray.conventions import _registry
    spec = case["spec"]
    with warnings.catch_warnings():
        warnings.simplefilter("ignore")
        ds = specs.build(spec)
    builtin = r_detect(ds)
    base_cls = getattr(emsarray.conventions, specs.EXPECTED_CLASS[spec["conv"]])
    synthetic = []
    for k, entry in enumerate(case["synthetic"]):
        value = entry["specificity"]

        def check_dataset(cls, dataset, value=value):
            return value
        synthetic.append(type(f"Synthetic{k}", (base_cls,), {
            "check_dataset": classmethod(check_dataset)}))
    # an entry of the order is a synthetic class (by number) or the name of a built-in class:
    # registering a class that is already known through its entry point must move it to the front
    order = []
    for k in case["order"]:
        if isinstance(k, str):
            order.append(getattr(emsarray.conventions, k))
        elif synthetic:
            order.append(synthetic[k % len(synthetic)])
    builtin_values = dict(builtin)

    def value_of(cls):
        if cls in synthetic:
            return case["synthetic"][synthetic.index(cls)]["specificity"]
        return builtin_values.get(cls.__name__)
    saved = _registry.registry
    fresh = _registry.ConventionRegistry()
    _registry.registry = fresh
    try:
        registered = []
        candidates = list(builtin)
        ctx.at("C11.registration")
        before = emsarray.get_dataset_convention(ds)
        ctx.check((None if before is None else before.__name__) == winner(builtin),
                  "C11.registration_order",
                  lambda: f"empty registry: detected {before}, expected {winner(builtin)}")
        for step, cls in enumerate(order):
            emsarray.conventions.register_convention(cls)
            if cls not in registered:
                registered.append(cls)
            candidates = []
            for reg in registered:
                value = value_of(reg)
                if value is not None:
                    candidates.append((reg.__name__, value))
            candidates += builtin
            expected = winner(candidates)
            # detection is asked after every registration: the registry must notice each one
            got = emsarray.get_dataset_convention(ds)
            name = None if got is None else got.__name__
            ctx.check(name == expected, "C11.registration_order",
                      lambda: f"after registering {[c.__name__ for c in order[:step + 1]]} with "
                      f"specificities {[e['specificity'] for e in case['synthetic']]} on a "
                      f"{spec['conv']} dataset (built-in matches {builtin}): detected {name}, "
                      f"expected {expected}")
        expected = winner(candidates)
        got = emsarray.get_dataset_convention(ds)
        matches = fresh.match_conventions(ds)
        values = [m[1] for m in matches]
        ctx.check(values == sorted(values, reverse=True), "C11.registration_order",
                  lambda: f"match_conventions is not ordered by specificity: {values}")
        ctx.check(emsarray.get_dataset_convention(ds) is got, "C11.detect_repeatable",
                  "second detection differs")
        if expected is not None and spec["conv"] != "arakawa":
            with warnings.catch_warnings():
                warnings.simplefilter("ignore")
                bound = ds.ems
            ctx.check(type(bound).__name__ == expected, "C11.accessor",
                      lambda: f".ems is a {type(bound).__name__}, expected {expected}")
    finally:
        _registry.registry = saved
    specs_seen = [v for _, v in candidates]
    tie = len(specs_seen) != len(set(specs_seen)) and specs_seen.count(max(specs_seen)) > 1
    if tie:
        ctx.label("tie_for_best")
    ctx.label(f"synthetic:{len(synthetic)}")
    ctx.nontrivial(tie or len(registered) >= 2)


# ---- histories ------------------------------------------------------------------------------

def check_history(case, ctx):
    emsarray = import_emsarray()
    live = []          # dicts: ds, conv_name (spec conv), bound (convention object or None)
    copied_and_bound = False

    def expected_class(conv):
        return specs.EXPECTED_CLASS[conv]

    def construct(entry):
        cls = getattr(emsarray.conventions, expected_class(entry["conv"]))
        if entry["conv"] == "arakawa":
            return cls(entry["ds"], coordinate_names=specs.arakawa_coordinate_names())
        return cls(entry["ds"])

    with warnings.catch_warnings():
        warnings.simplefilter("ignore")
        for spec in case["specs"]:
            live.append({"ds": specs.build(spec), "conv": spec["conv"], "bound": None,
                         "origin": None})
        for step, (op, a, b) in enumerate(case["ops"]):
            entry = live[a % len(live)]
            ds = entry["ds"]
            where = f"step {step} {op} on dataset {a % len(live)} ({entry['conv']})"
            if op == "access":
                ctx.at("C11.accessor")
                want = winner(r_detect(ds))
                if entry["bound"] is None and want is None:
                    ctx.raises("C11.refuse_unknown", lambda: ds.ems,
                               f"{where}: nothing matches this dataset", exc_types=RuntimeError)
                    continue
                got = ds.ems
                if entry["bound"] is None:
                    ctx.check(type(got).__name__ == want, "C11.accessor",
                              lambda: f"{where}: auto-detected {type(got).__name__}, rules give {want}")
                    entry["bound"] = got
                else:
                    ctx.check(got is entry["bound"], "C11.accessor_cached",
                              lambda: f"{where}: .ems returned {got!r}, not the attached {entry['bound']!r}")
            elif op == "bind":
                ctx.at("C11.bind")
                conv = construct(entry)
                if entry["bound"] is None:
                    conv.bind()
                    entry["bound"] = conv
                    if entry["origin"] is not None and live[entry["origin"]]["bound"] is not None:
                        copied_and_bound = True
                else:
                    ctx.raises("C11.second_bind_refused", conv.bind,
                               f"{where}: bind() on a dataset that already has a convention",
                               exc_types=ValueError)
            elif op in ("copy", "deepcopy"):
                if len(live) >= 6:
                    continue
                new = ds.copy(deep=(op == "deepcopy"))
                live.append({"ds": new, "conv": entry["conv"], "bound": None,
                             "origin": a % len(live)})
            elif op == "detect":
                ctx.at("C11.detect")
                got = emsarray.get_dataset_convention(ds)
                want = winner(r_detect(ds))
                name = None if got is None else got.__name__
                ctx.check(name == want, "C11.detect",
                          lambda: f"{where}: detected {name}, expected {want}")
            # invariant over every live dataset
            from emsarray.state import State
            for k, other in enumerate(live):
                if other["bound"] is not None:
                    # (looked up through the state object: reading .ems here would make xarray
                    # cache the accessor value and hide a binding that is replaced later)
                    now = State.get(other["ds"]).convention
                    ctx.check(now is other["bound"], "C11.binding_stable",
                              lambda: f"after {where}: dataset {k} now has {now!r} attached instead "
                              f"of {other['bound']!r}")
                    ctx.check(now.dataset is other["ds"], "C11.binding_stable",
                              lambda: f"after {where}: convention of dataset {k} points at another dataset")
                else:
                    ctx.check(not State.get(other["ds"]).is_bound(), "C11.copies_independent",
                              lambda: f"after {where}: dataset {k} became bound although nothing was "
                              f"attached to it (copy of {other['origin']})")
    ctx.label(f"ops:{len(case['ops'])}")
    ctx.nontrivial(copied_and_bound)


SIMPLE_SPEC = S.dataset_spec(with_vars=False, modes=("raw",), geom_kwargs={"max_n": 3, "max_j": 2, "max_i": 2})


@st.composite
def detection_cases(draw):
    return {"spec": draw(SIMPLE_SPEC), "mutation": draw(st.sampled_from(MUTATIONS)),
            "pick": draw(st.integers(0, 7))}


@st.composite
def registration_cases(draw):
    n = draw(st.integers(0, 4))
    synthetic = [{"specificity": draw(st.sampled_from([None, 5, 10, 20, 30, 30, 40]))}
                 for _ in range(n)]
    step = st.integers(0, 7) if n else st.nothing()
    step = st.one_of(step, step, st.sampled_from(BUILTIN_NAMES)) if n else st.sampled_from(BUILTIN_NAMES)
    order = draw(st.lists(step, min_size=n, max_size=n + 3))
    return {"spec": draw(SIMPLE_SPEC), "synthetic": synthetic, "order": order}


@st.composite
def history_cases(draw):
    n = draw(st.integers(1, 3))
    ops = draw(st.lists(st.tuples(
        st.sampled_from(["access", "access", "bind", "bind", "copy", "deepcopy", "detect"]),
        st.integers(0, 7), st.integers(0, 7)), min_size=2, max_size=30))
    return {"specs": [draw(SIMPLE_SPEC) for _ in range(n)], "ops": [list(o) for o in ops]}


SUBS = [
    Sub("detection", lambda tier: detection_cases(), check_detection, quick=300, thorough=1500),
    Sub("registration_orders", lambda tier: registration_cases(), check_registration, quick=200, thorough=1000),
    Sub("histories", lambda tier: history_cases(), check_history, quick=120, thorough=600),
]
MATCHERS = {}
