"""
C15 - geometry export round-trips every cell with its indexes.

Oracle: round trip through independent readers (json, pyshp's Reader, shapely.from_wkt /
from_wkb).  The k-th geometry read back must be the polygon of the k-th cell that has geometry,
with identical coordinates, and the recorded indexes must lead back to that cell.
"""
import json
import os

import numpy
import warnings

import shapefile
import shapely
from hypothesis import strategies as st

from vf import refmodel, specs
from vf import strategies as S
from vf.common import import_emsarray
from vf.props._util import open_case
from vf.runner import Sub

PROPERTY = "C15"
RULE = (
    "Datasets of every convention (holes anywhere including the first and last cell, bow-tie mesh "
    "faces, native indexes with and without a grid kind, coordinates with up to 10 binary "
    "decimals) x GeoJSON, Shapefile, WKT and WKB written through operations.geometry.write_*. "
    "Non-trivial: the dataset has a hole that precedes a cell with geometry, or a native index "
    "that carries a grid kind. Distinct = spec hash."
)
ASSUMPTIONS = [
    "coordinates are compared exactly (binary floats written in decimal must read back to the "
    "same double); rings are compared up to start vertex and direction (shapefiles store "
    "clockwise rings)",
]


def rings_equal(a, b):
    return refmodel.ring_normal_form(a) == refmodel.ring_normal_form(b)


def check_spec(spec, ctx):
    import_emsarray()
    from emsarray.operations import geometry
    ds, conv = open_case(spec)
    polygons = conv.polygons
    live = [n for n in range(len(polygons)) if polygons[n] is not None]
    want_rings = [refmodel.polygon_ring(polygons[n]) for n in live]
    if not live:
        ctx.label("no_geometry_at_all")
        return

    def compare_geometries(fmt, rings):
        ctx.check(len(rings) == len(live), f"C15.{fmt}.count",
                  lambda: f"{fmt}: {len(rings)} geometries read back, the dataset has {len(live)} "
                  f"cells with polygons")
        for k, (got, want) in enumerate(zip(rings, want_rings)):
            ctx.check(rings_equal(got, want), f"C15.{fmt}.coordinates_identical",
                      lambda: f"{fmt}: geometry {k} has ring {got}; cell {live[k]} has {want}",
                      fmt=fmt, got=[list(p) for p in got], want=[list(p) for p in want])

    def check_indexes(fmt, k, linear_index, index):
        n = live[k]
        ctx.check(linear_index == n, f"C15.{fmt}.linear_index",
                  lambda: f"{fmt}: feature {k} records linear_index {linear_index!r}; it is cell {n}")
        ctx.at(f"C15.{fmt}.native_index")
        native = tuple(index) if isinstance(index, (list, tuple)) else index
        back = conv.ravel_index(native)
        ctx.check(back == n, f"C15.{fmt}.native_index",
                  lambda: f"{fmt}: feature {k} records index {index!r} which is cell {back}, "
                  f"not cell {n}")
        # ... and against the reference model (row-major position on the dataset's own face
        # grid), not only against emsarray's inverse of its own conversion
        numbers = [int(v) for v in (native if isinstance(native, tuple) else (native,))
                   if isinstance(v, (int, numpy.integer)) and not isinstance(v, bool)]
        want_numbers = list(refmodel.native_components(spec, "face", n))
        ctx.check(numbers == want_numbers, f"C15.{fmt}.native_index",
                  lambda: f"{fmt}: feature {k} (cell {n}) records index {index!r}; on the dataset's "
                  f"face grid that cell is at {want_numbers}")

    with specs.scratch_dir() as tmp, warnings.catch_warnings():
        warnings.simplefilter("ignore")
        # ---- GeoJSON
        path = os.path.join(tmp, "cells.geojson")
        ctx.at("C15.geojson.write")
        geometry.write_geojson(ds, path)
        with ctx.using("C15.geojson.readable", "reading the GeoJSON file back"):
            with open(path) as f:
                doc = json.load(f)
            features = doc["features"]
            rings = [[tuple(p) for p in feat["geometry"]["coordinates"][0]] for feat in features]
        compare_geometries("geojson", rings)
        for k, feat in enumerate(features[:len(live)]):
            props = feat.get("properties") or {}
            check_indexes("geojson", k, props.get("linear_index"), props.get("index"))

        # ---- Shapefile
        base = os.path.join(tmp, "cells")
        ctx.at("C15.shapefile.write")
        geometry.write_shapefile(ds, base)
        with ctx.using("C15.shapefile.readable", "reading the shapefile back"):
            reader = shapefile.Reader(base)
            shapes = reader.shapes()
            records = reader.records()
            field_names = [f[0] for f in reader.fields if f[0] != "DeletionFlag"]
            rings = []
            for shp in shapes:
                coords = shp.__geo_interface__["coordinates"]
                rings.append([tuple(p) for p in coords[0]])
            reader.close()
        compare_geometries("shapefile", rings)
        ctx.check(len(records) == len(shapes), "C15.shapefile.count",
                  lambda: f"shapefile: {len(records)} records for {len(shapes)} shapes")
        for k, rec in enumerate(records[:len(live)]):
            values = dict(zip(field_names, list(rec)))
            li = next((values[name] for name in field_names if name.startswith("linear_ind")), None)
            idx = values.get("index")
            ctx.check(idx is not None, "C15.shapefile.native_index",
                      lambda: f"shapefile: record {k} has no index value: {values}")
            try:
                idx = json.loads(idx) if isinstance(idx, str) else idx
            except ValueError:
                ctx.fail("C15.shapefile.native_index", f"shapefile: record {k} index {idx!r} is not JSON")
            check_indexes("shapefile", k, li, idx)

        # ---- WKT / WKB
        for fmt, writer, loader, mode in (
                ("wkt", geometry.write_wkt, shapely.from_wkt, "r"),
                ("wkb", geometry.write_wkb, shapely.from_wkb, "rb")):
            path = os.path.join(tmp, "cells." + fmt)
            ctx.at(f"C15.{fmt}.write")
            writer(ds, path)
            with ctx.using(f"C15.{fmt}.readable", f"reading the {fmt} file back"):
                with open(path, mode) as f:
                    geom = loader(f.read())
                parts = list(geom.geoms) if hasattr(geom, "geoms") else [geom]
                rings = [refmodel.polygon_ring(p) for p in parts]
            compare_geometries(fmt, rings)

    seen_hole = False
    hole_before = False
    for p in polygons:
        if p is None:
            seen_hole = True
        elif seen_hole:
            hole_before = True
    ctx.label("conv:" + spec["conv"])
    if hole_before:
        ctx.label("hole_before_cell")
    if polygons[0] is None:
        ctx.label("first_cell_is_hole")
    ctx.nontrivial(hole_before or spec["conv"] in ("arakawa", "shoc_standard", "ugrid"))


def strategy(tier):
    return S.dataset_spec(with_vars=False, modes=("raw",), geom_kwargs={"max_n": 4})


def _scale(value, factor):
    if value is None:
        return None
    if isinstance(value, list):
        return [_scale(v, factor) for v in value]
    return value * factor


@st.composite
def awkward_coordinates(draw):
    """The same datasets with every coordinate multiplied by a factor that is not a dyadic
    rational and may be tiny: doubles that need all 17 significant digits, at magnitudes from
    1e2 down to 1e-10, which a fixed number of decimal places cannot carry."""
    spec = draw(S.dataset_spec(with_vars=False, modes=("raw",), geom_kwargs={"max_n": 3}))
    factor = draw(st.sampled_from([1 / 3, 0.1, 7 / 9, 1e-3 / 3, 1e-6 / 7, 1e-9 / 3]))
    g = spec["geom"]
    for key in ("lat", "lon", "lat_bounds", "lon_bounds", "nodes"):
        if g.get(key) is not None:
            g[key] = _scale(g[key], factor)
    spec["scaled_by"] = factor
    return spec


@st.composite
def shifted_east(draw):
    """Models on a 0..360 longitude grid: every x coordinate moved east by 200 degrees, so that
    some or all cells lie beyond 180."""
    spec = draw(S.dataset_spec(with_vars=False, modes=("raw",), geom_kwargs={"max_n": 3}))
    g = spec["geom"]
    shift = draw(st.sampled_from([190.0, 200.0, 25.0]))

    def move(item):
        if item is None:
            return None
        if len(item) == 2 and all(isinstance(v, (int, float)) for v in item):
            return [item[0] + shift, item[1]]
        return [move(p) for p in item]
    if g.get("nodes") is not None:
        g["nodes"] = move(g["nodes"])
    if g.get("lon") is not None:
        g["lon"] = [v + shift for v in g["lon"]]
        if g.get("lon_bounds") is not None:
            g["lon_bounds"] = [[a + shift, b + shift] for a, b in g["lon_bounds"]]
    spec["shifted_east_by"] = shift
    return spec


@st.composite
def shifted_north(draw):
    """Coordinates beyond +-90 on the y axis: projected coordinates (metres), or a global grid
    whose polar rows are centred on the poles so that the cell edges lie past them."""
    spec = draw(S.dataset_spec(with_vars=False, modes=("raw",), geom_kwargs={"max_n": 3}))
    g = spec["geom"]
    shift = draw(st.sampled_from([60.0, -70.0, 88.0, -90.0, 1000.0, -250000.0]))

    def move(item):
        if item is None:
            return None
        if len(item) == 2 and all(isinstance(v, (int, float)) for v in item):
            return [item[0], item[1] + shift]
        return [move(p) for p in item]
    if g.get("nodes") is not None:
        g["nodes"] = move(g["nodes"])
    if g.get("lat") is not None:
        g["lat"] = [v + shift for v in g["lat"]]
        if g.get("lat_bounds") is not None:
            g["lat_bounds"] = [[a + shift, b + shift] for a, b in g["lat_bounds"]]
    spec["shifted_north_by"] = shift
    return spec


@st.composite
def large_grid_with_holes(draw):
    """2-D grids of 768-1536 cells (32 columns) with scattered holes and whole bands of rows
    without geometry: more than a thousand features, long runs of missing cells."""
    ni = 32
    nj = draw(st.integers(24, 48))
    unit = 2.0 ** -draw(st.sampled_from([1, 2, 3]))
    x0, y0 = draw(st.integers(-60, 60)) * unit, draw(st.integers(-60, 20)) * unit
    nodes = [[[x0 + i * unit, y0 + j * unit] for i in range(ni + 1)] for j in range(nj + 1)]
    holes = [[False] * ni for _ in range(nj)]
    for _ in range(draw(st.integers(0, 2))):
        # a band of rows: with 32 columns, eight rows are 256 consecutive linear indexes
        rows = draw(st.sampled_from([8, 8, 9, 16, 3]))
        start = draw(st.sampled_from([0, 8, 16, 24, 5])) if nj - rows > 24 else draw(st.integers(0, max(0, nj - rows - 1)))
        for j in range(start, min(start + rows, nj - 1)):
            holes[j] = [True] * ni
    for _ in range(draw(st.integers(0, 6))):
        holes[draw(st.integers(0, nj - 1))][draw(st.integers(0, ni - 1))] = True
    holes[nj - 1][ni - 1] = False
    shoc = draw(st.booleans())
    geom = {"nodes": nodes, "holes": holes, "twisted": [], "bounds": True, "bad_bounds": None,
            "names": draw(st.sampled_from(S.SHOC_SIMPLE_NAMES if shoc else S.CF2D_NAMES)),
            "coords_as": "coord", "bounds_as": "var", "detect": "units", "decoy_first": False}
    return {"conv": "shoc_simple" if shoc else "cf2d", "geom": geom, "extra": {}, "vars": [],
            "mode": "raw", "bind": "auto", "warmup": []}


SUBS = [
    Sub("export", strategy, check_spec, quick=250, thorough=1000),
    Sub("export_awkward_coordinates", lambda tier: awkward_coordinates(), check_spec, quick=80, thorough=400),
    Sub("export_east_of_180", lambda tier: shifted_east(), check_spec, quick=40, thorough=200),
    Sub("export_large_grids_with_holes", lambda tier: large_grid_with_holes(), check_spec, quick=4, thorough=30),
    Sub("export_beyond_the_poles", lambda tier: shifted_north(), check_spec, quick=40, thorough=200),
]
MATCHERS = {}
