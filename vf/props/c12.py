"""
C12 - ocean floor extraction returns the deepest valid value of every water column.

Oracle (R-depth): physical depth of a level is its value when the coordinate is positive-down and
the negated value otherwise; the ocean-floor value of a column is the stored value at the wet level
of greatest physical depth, missing when the whole column is dry.  Computed per element from the
spec; the result of emsarray is compared element by element.
"""
import itertools
import math
import warnings

import numpy
from hypothesis import strategies as st

from vf import refmodel, specs
from vf import strategies as S
from vf.common import import_emsarray
from vf.props import c05
from vf.props._util import same_number, track
from vf.runner import Sub

PROPERTY = "C12"
RULE = (
    "Datasets of every convention with 1-2 depth coordinates on different dimensions (2-5 "
    "monotonic levels; positive up or down; stored deep-to-shallow or shallow-to-deep), a static "
    "sea floor per (depth coordinate, grid kind) giving every column 0..all wet layers, and 2-4 "
    "float variables with the depth dimension in any position, with or without time and a "
    "nuisance dimension, on any grid kind, plus variables without depth; through "
    "operations.depth.ocean_floor and (when the dataset has a time coordinate) "
    "dataset.ems.ocean_floor(). Non-trivial: the floor has >= 3 distinct wet counts including 0 "
    "and all, and some variable's depth dimension is not leading. Distinct = case hash."
)
ASSUMPTIONS = [
    "depth coordinates are monotonic with >= 2 levels and carry positive: up/down in lower case, "
    "or no positive attribute at all with every level on one side of zero (the documented guess "
    "from the values then defines the sign convention)",
    "static sea floor: within one (depth dimension, spatial dimensions) group all variables and "
    "all time steps share the wet/dry pattern (what ocean_floor documents)",
    "variables with a depth dimension but no horizontal dimension are not generated (nothing is "
    "asserted about profiles)",
    "dataset.ems.ocean_floor() is exercised only on datasets that have a time coordinate",
]

DEPTH_NAMES = {
    "shoc_standard": [("z_centre", "k_centre"), ("z_grid", "k_grid")],
    "shoc_simple": [("zc", "k"), ("zcsed", "ksed")],
}
GENERIC_DEPTHS = [("depth", "depth"), ("zw", "kw")]
TIME_NAMES = {"shoc_standard": ("t", "record"), "shoc_simple": ("time", "time")}


@st.composite
def depth_coordinate(draw, name, dim, with_bounds=False, positive=("up", "down")):
    n = draw(st.integers(2, 5))
    pos = draw(st.sampled_from(list(positive)))
    start = draw(st.integers(-8, 8)) / 4
    gaps = [draw(st.integers(1, 6)) / 4 for _ in range(n - 1)]
    direction = draw(st.sampled_from([1, -1]))
    values = [start]
    for gp in gaps:
        values.append(values[-1] + direction * gp)
    dc = {"name": name, "dim": dim, "values": values, "positive": pos,
          "as": draw(st.sampled_from(["coord", "coord", "var"]))}
    if with_bounds:
        half = [g / 2 for g in gaps]
        lows = [values[0] - direction * 0.125] + [values[k] + direction * half[k] for k in range(n - 1)]
        highs = lows[1:] + [values[-1] + direction * 0.125]
        dc["bounds"] = [[lo, hi] for lo, hi in zip(lows, highs)]
    return dc


@st.composite
def cases(draw, convs=S.ALL_CONVS, unmarked=False):
    conv = draw(st.sampled_from(list(convs)))
    spec = {"conv": conv, "geom": draw(S.geometry(conv, max_n=3, max_j=2, max_i=3,
                                                   allow_bowtie=False))}
    names = DEPTH_NAMES.get(conv, GENERIC_DEPTHS)
    n_depths = 1 if unmarked else draw(st.integers(1, 2))
    spec["depths"] = [draw(depth_coordinate(nm, dm, with_bounds=draw(st.booleans()))) for nm, dm in names[:n_depths]]
    for dc in spec["depths"]:
        if dc.get("bounds") is not None:
            dc["bounds_as"] = draw(st.sampled_from(["var", "coord"]))
        if dc["name"] == dc["dim"]:
            dc["as"] = "coord"
    if conv not in DEPTH_NAMES and not unmarked and draw(st.integers(0, 3)) == 0:
        # the same levels described a second time on the same dimension, as elevation instead
        # of depth (or the other way round): opposite sign convention, negated values
        first = spec["depths"][0]
        twin = dict(first, name="elevation", values=[-v for v in first["values"]],
                    positive="up" if first["positive"] == "down" else "down", **{"as": "var"})
        twin.pop("bounds", None)
        spec["depths"].append(twin)
    for dc in spec["depths"]:
        # a coordinate without the positive attribute (a common omission): its sign convention
        # is then the documented guess from its values; only unambiguous coordinates (all values
        # on one side of zero) are generated.  SHOC coordinates are known by name and need no
        # marker at all, the generic detection needs one of its other markers.
        if dc["name"] != "elevation" and len(spec["depths"]) == 1 and (
                unmarked or draw(st.integers(0, 2)) == 0):
            if draw(st.booleans()):
                offset = max(0.0, -min(dc["values"])) + 0.25          # all levels above zero
            else:
                offset = -(max(0.0, max(dc["values"])) + 0.25)        # all levels below zero
            dc["values"] = [v + offset for v in dc["values"]]
            dc["positive"] = None
            markers = [{"axis": "Z"}, {"cartesian_axis": "Z"}, {"coordinate_type": "Z"},
                       {"standard_name": "depth"}]
            if conv in DEPTH_NAMES:
                markers = [{}, {}, {}, {}] + markers
            dc["extra_attrs"] = draw(st.sampled_from(markers))
    extra = {dc["dim"]: len(dc["values"]) for dc in spec["depths"]}
    with_time = True if unmarked else draw(st.booleans())
    tname, tdim = TIME_NAMES.get(conv, ("time", "time"))
    if with_time:
        nt = draw(st.integers(1, 3))
        extra[tdim] = nt
        spec["time"] = {"name": tname, "dim": tdim, "units": "days since 1990-01-01 00:00:00",
                        "values": list(range(nt)), "bounds": draw(st.integers(0, 2)) == 0}
    nuisance = draw(st.booleans())
    if nuisance:
        extra["n"] = 2
    spec["extra"] = extra
    shapes = specs.grid_shapes(spec)
    kinds = list(shapes)
    floors = {}
    by_dim = {}
    for dc in spec["depths"]:
        nz = len(dc["values"])
        if dc["dim"] in by_dim:
            floors[dc["name"]] = floors[by_dim[dc["dim"]]]      # same levels, same sea floor
            continue
        by_dim[dc["dim"]] = dc["name"]
        floors[dc["name"]] = {}
        for kind in kinds:
            size = refmodel.grid_size(spec, kind)
            counts = [draw(st.sampled_from([0, nz, draw(st.integers(0, nz))])) for _ in range(size)]
            floors[dc["name"]][kind] = counts
    spec["floors"] = floors
    n_grid = 1 if conv == "ugrid" else 2
    variables = []
    for k in range(draw(st.integers(2, 4))):
        kind = draw(st.sampled_from(kinds))
        dc = draw(st.sampled_from([d for d in spec["depths"] if d["name"] != "elevation"]))
        dims = [dc["dim"]] + [f"@{q}" for q in range(n_grid)]
        if with_time and draw(st.booleans()):
            dims.append(tdim)
        if nuisance and draw(st.integers(0, 2)) == 0:
            dims.append("n")
        dims = list(draw(st.permutations(dims)))
        variables.append({"name": f"v{k}", "kind": kind, "dims": dims,
                          "dtype": draw(st.sampled_from(["f8", "f8", "f4"])), "fill": None,
                          "floor": dc["name"]})
    # a variable without depth, and one without any grid
    kind = draw(st.sampled_from(kinds))
    variables.append({"name": "surface", "kind": kind,
                      "dims": [f"@{q}" for q in range(n_grid)] + ([tdim] if with_time else []),
                      "dtype": "f8", "fill": None})
    spec["vars"] = variables
    if draw(st.integers(0, 2)) == 0:
        # layer numbers: a plain coordinate on the depth dimension that is not a depth coordinate
        spec["aux_coords"] = {"level": spec["depths"][0]["dim"]}
    spec["mode"] = draw(st.sampled_from(["decoded", "dask", "file"])) if with_time else draw(st.sampled_from(["raw", "decoded", "dask", "file"]))
    spec.update(draw(S.storage_options(conv)))
    route = draw(st.sampled_from(["function", "accessor", "accessor", "accessor"] if unmarked else
                                 ["function", "accessor", "accessor"])) if with_time else "function"
    return {"spec": spec, "route": route,
            "scalar_time": draw(st.sampled_from([0, 0, 0, 1, 2, 3])) if with_time else 0,
            "names_as": draw(st.sampled_from(["list", "list", "tuple", "iterator", "generator", "data_arrays"]))}


def check_case(case, ctx):
    import_emsarray()
    from emsarray.operations import depth as depth_ops
    spec = case["spec"]
    with warnings.catch_warnings():
        warnings.simplefilter("ignore")
        ds = specs.build(spec)
        picked_time = None
        if case.get("scalar_time") and spec.get("time") and spec["conv"] != "shoc_simple":
            # one time step picked beforehand (ds.isel(time=k)): the time coordinate is a scalar
            # and the variables have no time dimension any more
            tdim = spec["time"]["dim"]
            picked_time = case["scalar_time"] % specs.dim_sizes(spec)[tdim]
            ds = ds.isel({tdim: picked_time})
        if picked_time is None:
            track(spec, ds)
        conv = specs.bind_convention(spec, ds)
        before_polygons = list(conv.polygons)
        depth_names = [dc["name"] for dc in spec["depths"]]
        ctx.at("C12.ocean_floor")
        if case["route"] == "accessor":
            found = sorted(str(c.name) for c in conv.depth_coordinates)
            ctx.check(found == sorted(depth_names), "C12.depth_coordinates_found",
                      lambda: f"depth coordinates found: {found}; the dataset has {sorted(depth_names)}")
            out = conv.ocean_floor()
        else:
            non_spatial = [spec["time"]["name"]] if spec.get("time") else None
            given = {"list": list, "tuple": tuple, "iterator": iter,
                     "generator": lambda names: (n for n in list(names)),
                     "data_arrays": lambda names: [ds[n] for n in names]}[case.get("names_as", "list")]
            out = depth_ops.ocean_floor(ds, given(depth_names), non_spatial_variables=non_spatial)
    what = f"ocean_floor via {case['route']}"
    sizes = specs.dim_sizes(spec)
    depth_dims = {dc["dim"] for dc in spec["depths"]}
    for aux in spec.get("aux_coords") or {}:
        ctx.check(aux not in out.variables, "C12.depth_dimension_removed",
                  lambda: f"{what}: coordinate {aux} of the depth dimension is still in the result "
                  f"(dims {out[aux].dims})")
    not_leading = False
    for var in spec["vars"]:
        name = var["name"]
        ctx.check(name in out.variables, "C12.variables_kept",
                  lambda: f"{what}: variable {name} is missing from the result")
        names = specs.var_dim_names(spec, var)
        fixed = {}
        if picked_time is not None and spec["time"]["dim"] in names:
            fixed = {spec["time"]["dim"]: picked_time}
            names = [d for d in names if d not in fixed]
        got = out[name]
        if var.get("floor") is None:
            ctx.check(list(got.dims) == names and got.shape == ds[name].shape
                      and numpy.array_equal(got.values, ds[name].values, equal_nan=True),
                      "C12.other_variables_unchanged",
                      lambda: f"{what}: variable {name} without depth changed: dims {got.dims}")
            continue
        dc = specs.depth_coordinate_spec(spec, var["floor"])
        zdim = dc["dim"]
        if names[0] != zdim:
            not_leading = True
        rest = [d for d in names if d != zdim]
        # The order of the remaining dimensions is not promised (the reduction is a vectorised
        # selection); they are matched by name.
        ctx.check(sorted(got.dims) == sorted(rest), "C12.depth_dimension_removed",
                  lambda: f"{what}: {name} has dims {got.dims}; expected {rest} (depth dimension "
                  f"{zdim} removed, the others kept)")
        ctx.check(all(got.sizes[d] == sizes[d] for d in rest), "C12.depth_dimension_removed",
                  lambda: f"{what}: {name} has sizes {dict(got.sizes)}")
        order = specs.levels_shallow_to_deep(dc)
        values = got.transpose(*rest).values
        for idx in itertools.product(*(range(sizes[d]) for d in rest)):
            idx_by = dict(zip(rest, idx))
            idx_by.update(fixed)
            want = math.nan
            for level in reversed(order):          # deepest first
                idx_by[zdim] = level
                v = specs.value_of(spec, var, idx_by)
                if v is not None:
                    want = v
                    break
            ctx.check(same_number(values[idx], want), "C12.deepest_valid_value",
                      lambda: f"{what}: {name}{dict(zip(rest, idx))} = {values[idx]!r}; the deepest "
                      f"layer holding data stores {want!r} (depth {dc['name']} values {dc['values']} "
                      f"positive {dc['positive']})")
    for dc in spec["depths"]:
        ctx.check(dc["dim"] not in out.dims, "C12.depth_dimension_removed",
                  lambda: f"{what}: depth dimension {dc['dim']} is still in the result")
        ctx.check(dc["name"] not in out.variables, "C12.depth_coordinate_removed",
                  lambda: f"{what}: depth coordinate {dc['name']} is still in the result")
    for gname in c05.geometry_names(spec):
        ctx.check(gname in out.variables and out[gname].identical(ds[gname]),
                  "C12.geometry_unchanged",
                  lambda: f"{what}: geometry variable {gname} changed or disappeared")
    if spec.get("time"):
        tname = spec["time"]["name"]
        ctx.check(tname in out.variables and numpy.array_equal(out[tname].values, ds[tname].values),
                  "C12.other_variables_unchanged", lambda: f"{what}: time coordinate changed")
    with warnings.catch_warnings():
        warnings.simplefilter("ignore")
        ctx.at("C12.geometry_unchanged")
        out_conv = specs.bind_convention(spec, out)
        after = list(out_conv.polygons)
    ctx.check(len(after) == len(before_polygons) and all(
        (a is None and b is None) or (a is not None and b is not None and a.equals_exact(b, 0))
        for a, b in zip(after, before_polygons)), "C12.geometry_unchanged",
        f"{what}: polygons changed")

    ctx.label("conv:" + spec["conv"])
    ctx.label("route:" + case["route"])
    if picked_time is not None:
        ctx.label("one_time_step_picked_beforehand")
    rich = False
    for dc in spec["depths"]:
        ctx.label(f"positive:{dc['positive']}")
        if dc["positive"] is None:
            marker = "+".join(sorted(dc.get("extra_attrs") or {})) or "no_marker_at_all"
            ctx.label(f"no_positive_attribute:{spec['conv']}:{marker}:{case['route']}")
        ctx.label("stored:" + ("deep_to_shallow" if specs.levels_shallow_to_deep(dc)[0] != 0 else "shallow_to_deep"))
        nz = len(dc["values"])
        for kind, counts in spec["floors"][dc["name"]].items():
            if len(set(counts)) >= 3 and 0 in counts and nz in counts:
                rich = True
    ctx.label(f"depth_coordinates:{len(spec['depths'])}")
    if len({dc["dim"] for dc in spec["depths"]}) < len(spec["depths"]):
        ctx.label("two_coordinates_on_one_dimension")
    ctx.nontrivial(rich and not_leading)


SUBS = [Sub("ocean_floor", lambda tier: cases(), check_case, quick=150, thorough=1000),
        Sub("depth_coordinate_without_positive_attribute", lambda tier: cases(unmarked=True), check_case,
            quick=80, thorough=400)]
MATCHERS = {}
