"""Helpers shared by the property modules."""
import math
import warnings

import numpy

from vf import refmodel, specs


def open_case(spec):
    """Build the dataset of a spec and bind its convention.  Warnings raised while doing so are
    not under test here (C06 looks at them explicitly)."""
    with warnings.catch_warnings():
        warnings.simplefilter("ignore")
        ds = specs.build(spec)
        conv = specs.bind_convention(spec, ds)
    return ds, conv


def same_number(a, b):
    """Bitwise-style equality of two scalars: NaN equals NaN, otherwise ==."""
    if a is None:
        a = float("nan")
    if b is None:
        b = float("nan")
    try:
        a_nan = bool(numpy.isnan(a))
    except TypeError:
        a_nan = False
    try:
        b_nan = bool(numpy.isnan(b))
    except TypeError:
        b_nan = False
    if a_nan or b_nan:
        return a_nan and b_nan
    return bool(a == b)


def expected_scalar(spec, var, idx_by_dim, decoded=None):
    """Expected stored value as a float (NaN for missing when the variable was decoded)."""
    v = specs.value_of(spec, var, idx_by_dim)
    if v is None:
        if var.get("fill") is not None and not is_decoded_fill(spec, var):
            return var["fill"][1]
        return math.nan
    return v


def is_decoded_fill(spec, var):
    """True when xarray's CF decoding has replaced the variable's fill value with NaN."""
    if var.get("fill") is None:
        return False
    return spec.get("mode", "raw") in ("decoded", "netcdf")


def kind_map(conv):
    return refmodel.kind_enums(conv)


def is_square_like(spec):
    shapes = specs.grid_shapes(spec)
    face = shapes["face"]
    return len(face) == 2 and face[0] == face[1]
