"""Helpers shared by the property modules."""
import math
import warnings

import numpy

from vf import refmodel, specs


def open_case(spec):
    """Build the dataset of a spec and bind its convention.  Warnings raised while doing so are
    not under test here (C06 looks at them explicitly)."""
    with warnings.catch_warnings():
        warnings.simplefilter("ignore")
        ds = specs.build(spec)
        before = snapshot_of_case(spec, ds)
        conv = specs.bind_convention(spec, ds)
    _OPENED.append((ds, before, f"{spec['conv']} dataset (warm-up {spec.get('warmup') or []})"))
    return ds, conv


_OPENED = []


def track(spec, ds, what=None):
    """Register a dataset a check built itself (specs.build) for the runner's
    dataset_untouched invariant.  Call it right after building, before anything is done with it."""
    _OPENED.append((ds, snapshot_of_case(spec, ds), what or f"{spec['conv']} dataset"))
    return ds


def reset_opened():
    del _OPENED[:]


def verify_untouched(ctx):
    """Called by the runner after a check: the datasets handed out by open_case are unchanged."""
    for ds, before, what in _OPENED:
        touched = changed_variables(ds, before)
        ctx.check(not touched, ctx.prop_id + ".dataset_untouched",
                  lambda: f"the operations under test changed variables {touched} of the {what} "
                  f"they were given")
    reset_opened()


def same_number(a, b):
    """Bitwise-style equality of two scalars: NaN equals NaN, otherwise ==."""
    if isinstance(a, numpy.datetime64):
        a = specs.code_of_stamp(a)
    if isinstance(b, numpy.datetime64):
        b = specs.code_of_stamp(b)
    if a is None:
        a = float("nan")
    if b is None:
        b = float("nan")
    try:
        a_nan = bool(numpy.isnan(a))
    except TypeError:
        a_nan = False
    try:
        b_nan = bool(numpy.isnan(b))
    except TypeError:
        b_nan = False
    if a_nan or b_nan:
        return a_nan and b_nan
    return bool(a == b)


def expected_scalar(spec, var, idx_by_dim, decoded=None):
    """Expected stored value as a float (NaN for missing when the variable was decoded)."""
    v = specs.value_of(spec, var, idx_by_dim)
    if v is None:
        if var.get("fill") is not None and not is_decoded_fill(spec, var):
            return var["fill"][1]
        return math.nan
    return v


def is_decoded_fill(spec, var):
    """True when xarray's CF decoding has replaced the variable's fill value with NaN."""
    if var.get("fill") is None:
        return False
    return spec.get("mode", "raw") in ("decoded", "netcdf", "dask", "file")


def kind_map(conv):
    return refmodel.kind_enums(conv)


def is_square_like(spec):
    shapes = specs.grid_shapes(spec)
    face = shapes["face"]
    return len(face) == 2 and face[0] == face[1]


def snapshot(ds):
    """Bit-exact record of a dataset's variables (dims, dtype, bytes, attribute names/values)."""
    out = {}
    for name, var in ds.variables.items():
        values = numpy.asarray(var.values)
        if values.dtype == object:
            payload = repr(values.tolist())
        else:
            payload = numpy.ascontiguousarray(values).tobytes()
        out[str(name)] = (tuple(var.dims), str(values.dtype), values.shape, payload,
                          repr(sorted((str(k), repr(v)) for k, v in var.attrs.items())))
    return out


def snapshot_of_case(spec, ds):
    """snapshot(ds) that leaves a lazily opened dataset lazy: reading the values would load -
    and cache - what is meant to stay on disk, so the record is taken from a second handle on
    the same file."""
    if spec.get("mode") == "file":
        import xarray
        with xarray.open_dataset(ds.encoding["source"]) as twin:
            if spec.get("pick"):
                twin = twin.isel({d: k for d, k in spec["pick"].items() if d in twin.dims})
            return snapshot(twin)
    return snapshot(ds)


def changed_variables(ds, before):
    """Names of variables that differ from a snapshot (or were added / removed)."""
    after = snapshot(ds)
    names = sorted(set(before) | set(after))
    return [n for n in names if before.get(n) != after.get(n)]
