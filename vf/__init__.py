"""Verification framework for csiro-coasts/emsarray (property-based testing)."""
