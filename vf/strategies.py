"""
Hypothesis strategies producing case specs (see vf.specs for the layout).

Soundness first: only datasets the conventions document as valid are produced, unless a strategy
says otherwise (near-misses for C11, bow-tie faces for C06).  Coordinates are dyadic rationals, so
all the midpoint / mean arithmetic emsarray performs on them is exact in binary floating point.
"""
from hypothesis import strategies as st

from vf import specs

ALL_CONVS = ["cf1d", "cf2d", "shoc_simple", "arakawa", "shoc_standard", "ugrid"]

# (step per i, step per j) in lattice units; all well conditioned so that a jitter of one unit
# keeps every cell a convex, positively sized quadrilateral and neighbouring cells disjoint.
LATTICE_MATRICES = [
    ((8, 0), (0, 8)),      # axis aligned
    ((8, 2), (0, 8)),      # sheared
    ((8, 0), (3, 8)),      # sheared the other way
    ((6, 6), (-6, 6)),     # rotated 45 degrees
    ((8, -2), (2, 8)),     # slightly rotated
    ((-8, 0), (0, 8)),     # i runs west
    ((0, 8), (8, 0)),      # i runs north, j runs east (transposed)
    ((8, 0), (0, -8)),     # j runs south
    ((10, 0), (0, 6)),     # anisotropic
    ((-6, 6), (-6, -6)),   # rotated 135 degrees
]


@st.composite
def lattice(draw, nj, ni, jitter=None, unit_exps=(3, 3, 3, 4, 10)):
    """(nj+1) x (ni+1) node lattice of [x, y] dyadic floats."""
    (ax, ay), (bx, by) = draw(st.sampled_from(LATTICE_MATRICES))
    k = draw(st.sampled_from(unit_exps))
    unit = 2.0 ** -k
    ox = draw(st.integers(-170, 150))
    oy = draw(st.integers(-70, 55))
    if jitter is None:
        jitter = draw(st.booleans())
    nodes = []
    for j in range(nj + 1):
        row = []
        for i in range(ni + 1):
            jx = draw(st.integers(-1, 1)) if jitter else 0
            jy = draw(st.integers(-1, 1)) if jitter else 0
            row.append([ox + unit * (i * ax + j * bx + jx), oy + unit * (i * ay + j * by + jy)])
        nodes.append(row)
    return nodes


def _shape(draw, max_j, max_i):
    cls = draw(st.sampled_from(["any", "any", "row", "col", "wide"]))
    if cls == "row":
        return 1, draw(st.integers(1, max_i))
    if cls == "col":
        return draw(st.integers(1, max_j)), 1
    nj, ni = draw(st.integers(1, max_j)), draw(st.integers(1, max_i))
    if cls == "wide" and nj == ni:
        ni = ni + 1 if ni < max_i else max(1, ni - 1)
    return nj, ni


@st.composite
def hole_mask(draw, nj, ni, allow=True):
    if not allow or not draw(st.booleans()):
        return [[False] * ni for _ in range(nj)]
    mask = [[draw(st.integers(0, 3)) == 0 for _ in range(ni)] for _ in range(nj)]
    if nj * ni > 1 and draw(st.booleans()):
        mask[0][0] = True       # a hole that precedes every other cell
    if all(all(r) for r in mask):
        mask[nj - 1][ni - 1] = False
    return mask


CF1D_NAMES = [
    {"lat": "lat", "lon": "lon", "y": "lat", "x": "lon"},
    {"lat": "latitude", "lon": "longitude", "y": "y", "x": "x"},
    {"lat": "yc", "lon": "xc", "y": "ny", "x": "nx"},
]
CF2D_NAMES = [
    {"lat": "lat", "lon": "lon", "y": "y", "x": "x"},
    {"lat": "latitude", "lon": "longitude", "y": "ny", "x": "nx"},
    {"lat": "yc", "lon": "xc", "y": "eta", "x": "xi"},
]
SHOC_SIMPLE_NAMES = [
    {"lat": "latitude", "lon": "longitude", "y": "j", "x": "i"},
    {"lat": "y_centre", "lon": "x_centre", "y": "j", "x": "i"},
]


@st.composite
def axis_values(draw, n, lo, hi):
    """Strictly monotonic dyadic axis, ascending or descending, non-uniform spacing."""
    start = draw(st.integers(lo, hi))
    uniform = draw(st.booleans())
    gap0 = draw(st.integers(2, 10))
    gaps = [gap0 if uniform else draw(st.integers(2, 10)) for _ in range(n - 1)]
    sign = draw(st.sampled_from([1, -1]))
    unit = 2.0 ** -draw(st.sampled_from([0, 0, 2, 3, 3, 10]))
    vals = [float(start)]
    for gp in gaps:
        vals.append(vals[-1] + sign * gp * unit)
    return vals, sign, unit, gaps


@st.composite
def axis_bounds(draw, vals, sign, unit, gaps, kind):
    n = len(vals)
    if kind == "none":
        return None
    if kind == "contig":
        # contiguous edges, not necessarily at the midpoints
        edges = []
        first_half = draw(st.integers(1, 6))
        last_half = draw(st.integers(1, 6))
        edges.append(vals[0] - sign * first_half * unit / 2)
        for k in range(n - 1):
            # somewhere strictly between the two centres
            num = draw(st.integers(1, 2 * gaps[k] - 1))
            edges.append(vals[k] + sign * num * unit / 2)
        edges.append(vals[-1] + sign * last_half * unit / 2)
        rows = [[edges[k], edges[k + 1]] for k in range(n)]
    elif kind == "overlap":
        # cells reaching past their neighbours' edges (and sometimes short of them): a mix of
        # overlaps and uncovered strips
        rows = []
        for k in range(n):
            before = gaps[k - 1] if k > 0 else 4
            after = gaps[k] if k < n - 1 else 4
            lo_w = draw(st.integers(1, 2 * before))
            hi_w = draw(st.integers(1, 2 * after))
            rows.append([vals[k] - sign * lo_w * unit / 2, vals[k] + sign * hi_w * unit / 2])
    else:  # "gaps": every cell strictly inside its slot, leaving uncovered strips
        rows = []
        for k in range(n):
            before = gaps[k - 1] if k > 0 else 4
            after = gaps[k] if k < n - 1 else 4
            lo_w = draw(st.integers(1, max(1, before - 1)))
            hi_w = draw(st.integers(1, max(1, after - 1)))
            rows.append([vals[k] - sign * lo_w * unit / 2, vals[k] + sign * hi_w * unit / 2])
    if draw(st.booleans()):
        rows = [[b, a] for a, b in rows]     # CF allows either order inside a bounds row
    return rows


@st.composite
def cf1d_geom(draw, max_n=6, bounds_kinds=("none", "none", "contig", "gaps"), min_n=1):
    ny, nx = _shape(draw, max_n, max_n)
    ny, nx = max(ny, min_n), max(nx, min_n)
    lat_kind = draw(st.sampled_from(bounds_kinds))
    lon_kind = draw(st.sampled_from(bounds_kinds))
    # midpoint-derived bounds need two points on the axis (the code indexes values[1])
    if lat_kind == "none" and ny < 2:
        ny = 2
    if lon_kind == "none" and nx < 2:
        nx = 2
    lat, s1, u1, g1 = draw(axis_values(ny, -60, 50))
    lon, s2, u2, g2 = draw(axis_values(nx, -160, 140))
    names = draw(st.sampled_from(CF1D_NAMES))
    return {
        "lat": lat, "lon": lon,
        "lat_bounds": draw(axis_bounds(lat, s1, u1, g1, lat_kind)),
        "lon_bounds": draw(axis_bounds(lon, s2, u2, g2, lon_kind)),
        "bounds_kind": [lat_kind, lon_kind],
        # storage type of the two axes (applied only where it holds the values exactly)
        "coord_dtypes": [draw(st.sampled_from(["f8", "f8", "f4", "i4"])),
                         draw(st.sampled_from(["f8", "f4", "i4", "i4"]))],
        "names": names,
        "coords_as": draw(st.sampled_from(["coord", "var"])),
        "bounds_as": draw(st.sampled_from(["var", "var", "coord"])),
        "detect": draw(st.sampled_from(["units", "standard_name", "axis", "units_alt", "spelling", "spelling",
                                        "spelling", "spelling"])),
        "lon_first": draw(st.booleans()),
    }


@st.composite
def cf2d_geom(draw, shoc_simple=False, max_n=5, holes=True, bounds=None, decoy=False, twist=False):
    nj, ni = _shape(draw, max_n, max_n)
    nodes = draw(lattice(nj, ni))
    names = draw(st.sampled_from(SHOC_SIMPLE_NAMES if shoc_simple else CF2D_NAMES))
    hole_cells = draw(hole_mask(nj, ni, allow=holes))
    with_bounds = draw(st.booleans()) if bounds is None else bounds
    twisted = []
    if twist and with_bounds and nj * ni > 1 and (twist == "always" or draw(st.integers(0, 3)) == 0):
        spare = draw(st.integers(0, nj * ni - 1))
        twisted = [[j, i] for j in range(nj) for i in range(ni)
                   if not hole_cells[j][i] and j * ni + i != spare and draw(st.integers(0, 3)) == 0]
    return {
        "nodes": nodes,
        "holes": hole_cells,
        "twisted": twisted,
        "bounds": with_bounds,
        "bad_bounds": (None if with_bounds or bounds is not None else
                       draw(st.sampled_from([None, None, None, "xy4", "xy4", "4yx", "yx3"]))),
        "names": names,
        "coords_as": draw(st.sampled_from(["coord", "var"])),
        "bounds_as": draw(st.sampled_from(["var", "var", "coord"])),
        "detect": draw(st.sampled_from(["units", "standard_name", "units_alt", "spelling", "spelling"])),
        "lon_first": draw(st.booleans()),
        "decoy_first": bool(decoy and draw(st.booleans())),
    }


@st.composite
def arakawa_geom(draw, max_n=5, holes=True):
    nj, ni = _shape(draw, max_n, max_n)
    nodes = draw(lattice(nj, ni))
    full = [[list(p) for p in row] for row in nodes]
    style = draw(st.sampled_from(["none", "dry", "direct"])) if holes else "none"
    if style == "dry":
        dry = draw(hole_mask(nj, ni))
        for j in range(nj + 1):
            for i in range(ni + 1):
                adj = [(a, b) for a in (j - 1, j) for b in (i - 1, i)
                       if 0 <= a < nj and 0 <= b < ni]
                if all(dry[a][b] for a, b in adj):
                    nodes[j][i] = None
    elif style == "direct":
        for j in range(nj + 1):
            for i in range(ni + 1):
                if draw(st.integers(0, 5)) == 0:
                    nodes[j][i] = None
    # keep at least one complete cell
    if not any(all(nodes[a][b] is not None for a, b in specs.cell_corner_nodes(j, i))
               for j in range(nj) for i in range(ni)):
        for a, b in specs.cell_corner_nodes(nj - 1, ni - 1):
            nodes[a][b] = full[a][b]
    return {"nodes": nodes, "coords_as": draw(st.sampled_from(["coord", "var"])),
            "node_style": style,
            # the cell-centre longitude stored with its two dimensions the other way round (CF
            # leaves the dimension order of each variable free; emsarray reads the centres
            # through ravel, which accepts that.  The node / edge coordinates are read as plain
            # (j, i) arrays by the polygon builder, so the option stops at the centres.)
            "lon_transposed": ["face"] if draw(st.integers(0, 7)) == 0 else []}


# ---- meshes

def _ring_of_cells(cells):
    """Boundary ring (list of lattice nodes) of an edge-connected set of lattice cells that has
    no holes and no pinch points."""
    edges = set()
    for (j, i) in cells:
        ring = [(j, i), (j, i + 1), (j + 1, i + 1), (j + 1, i)]
        for k in range(4):
            u, v = ring[k], ring[(k + 1) % 4]
            if (v, u) in edges:
                edges.discard((v, u))
            else:
                edges.add((u, v))
    nxt = {}
    for u, v in edges:
        assert u not in nxt, "pinch point in cell group"
        nxt[u] = v
    start = min(nxt)
    ring = [start]
    cur = nxt[start]
    while cur != start:
        ring.append(cur)
        cur = nxt[cur]
    assert len(ring) == len(edges)
    return ring


@st.composite
def abstract_mesh(draw, max_j=3, max_i=4, allow_delete=True, allow_merge=True, jitter=None,
                  min_faces=1, unit_exps=(3, 3, 4, 10), allow_bowtie=True, allow_overlap=False):
    """Planar subdivision built on a node lattice: quads, triangles, merged (polyomino) faces
    and deleted cells.  Returns {"nodes": [[x, y]...], "faces": [[node...]...]} with shuffled
    node and face numbering, random ring start and winding per face."""
    nj, ni = _shape(draw, max_j, max_i)
    balanced_shapes = [(a, b) for a in range(2, max_j + 1) for b in range(2, max_i + 1)
                       if 2 * a * b >= (a + 1) * (b + 1)]
    want_balanced = bool(balanced_shapes) and draw(st.integers(0, 5)) == 0
    if want_balanced:
        nj, ni = draw(st.sampled_from(balanced_shapes))
    lat = draw(lattice(nj, ni, jitter=jitter, unit_exps=unit_exps))
    group = {}
    groups = []
    # some meshes are fully triangulated, one in six with exactly as many faces as nodes, which is when an index of one grid kind can be mistaken for one of another
    triangulated = want_balanced or (nj * ni >= 4 and draw(st.integers(0, 9)) == 0)
    forced_quads = set()
    excess = 2 * nj * ni - (nj + 1) * (ni + 1)
    if want_balanced:
        # exactly as many faces as lattice nodes: all cells split, but for `excess` of them
        order = draw(st.permutations([(j, i) for j in range(nj) for i in range(ni)]))
        forced_quads = set(order[:excess])
    for j in range(nj):
        for i in range(ni):
            if (j, i) in group:
                continue
            choice = draw(st.sampled_from(
                ["quad"] if (j, i) in forced_quads else
                ["tri_a", "tri_b"] if triangulated else
                ["quad", "quad", "tri_a", "tri_b"]
                + (["del"] if allow_delete else [])
                + (["right", "down", "ell", "penta", "hepta"] if allow_merge else [])))
            cells = [(j, i)]
            kind = choice
            if choice in ("penta", "hepta"):
                # the cell is split along a diagonal; one triangle is merged with the one or two
                # cells to its right, giving a face with an odd number of nodes (5 or 7)
                extra = 1 if choice == "penta" else 2
                right = [(j, i + k) for k in range(1, extra + 1)]
                if i + extra < ni and all(c not in group for c in right):
                    a, b, c, d = (j, i), (j, i + 1), (j + 1, i + 1), (j + 1, i)
                    top = [(j, i + k) for k in range(2, extra + 2)]
                    bottom = [(j + 1, i + k) for k in range(extra + 1, 1, -1)]
                    for cell in [(j, i)] + right:
                        group[cell] = len(groups)
                    groups.append(("rings", [[a, c, d], [a, b] + top + bottom + [c]]))
                    continue
                kind = "quad"
            if choice in ("right", "ell") and i + 1 < ni and (j, i + 1) not in group:
                cells.append((j, i + 1))
                kind = "merged"
                if choice == "ell" and j + 1 < nj:
                    cand = [(j + 1, i), (j + 1, i + 1)]
                    pick = cand[draw(st.integers(0, 1))]
                    if pick not in group:
                        cells.append(pick)
            elif choice == "down" and j + 1 < nj and (j + 1, i) not in group:
                cells.append((j + 1, i))
                kind = "merged"
                if draw(st.booleans()) and j + 2 < nj and (j + 2, i) not in group:
                    cells.append((j + 2, i))
            elif choice in ("right", "down", "ell"):
                kind = "quad"
            for c in cells:
                group[c] = len(groups)
            groups.append((kind, cells))
    faces_lat = []
    for kind, cells in groups:
        if kind == "del":
            continue
        if kind == "rings":
            faces_lat.extend(cells)
        elif kind in ("quad", "merged"):
            faces_lat.append(_ring_of_cells(cells))
        else:
            (j, i), = cells
            a, b, c, d = (j, i), (j, i + 1), (j + 1, i + 1), (j + 1, i)
            if kind == "tri_a":
                faces_lat.extend([[a, b, c], [a, c, d]])
            else:
                faces_lat.extend([[a, b, d], [b, c, d]])
    if len(faces_lat) < min_faces:
        faces_lat = [_ring_of_cells([(j, i)]) for j in range(nj) for i in range(ni)]
    node_order = draw(st.permutations([(j, i) for j in range(nj + 1) for i in range(ni + 1)]))
    used = {n for f in faces_lat for n in f}
    if triangulated and len(used) <= len(faces_lat) <= len(node_order) and draw(st.integers(0, 3)) > 0:
        # keep just enough unused nodes for the node count to equal the face count
        spare = len(faces_lat) - len(used)
        keep = set(used) | set([n for n in node_order if n not in used][:spare])
        node_order = [n for n in node_order if n in keep]
    elif draw(st.booleans()):
        # drop nodes no face uses (the usual case in real files)
        node_order = [n for n in node_order if n in used]
    node_no = {n: k for k, n in enumerate(node_order)}
    nodes = [list(lat[j][i]) for (j, i) in node_order]
    faces_lat = draw(st.permutations(faces_lat))
    faces = []
    quad_flags = [len(ring) == 4 for ring in faces_lat]
    for ring in faces_lat:
        ring = [node_no[n] for n in ring]
        s = draw(st.integers(0, len(ring) - 1))
        ring = ring[s:] + ring[:s]
        if draw(st.booleans()):
            ring = ring[::-1]
        faces.append(ring)
    overlap = False
    if allow_overlap and nj * ni >= 2 and draw(st.integers(0, 2)) == 0:
        # an extra face lying on top of two lattice cells: overlapping polygons, so that ties
        # between cells exist beyond shared boundaries
        if ni >= 2:
            j0, i0 = draw(st.integers(0, nj - 1)), draw(st.integers(0, ni - 2))
            ring = _ring_of_cells([(j0, i0), (j0, i0 + 1)])
        else:
            j0 = draw(st.integers(0, nj - 2))
            ring = _ring_of_cells([(j0, 0), (j0 + 1, 0)])
        if all(n in node_no for n in ring):
            faces.insert(draw(st.integers(0, len(faces))), [node_no[n] for n in ring])
            quad_flags = [False] * len(faces)
            overlap = True
    invalid = []
    if allow_bowtie and len(faces) > 1 and draw(st.integers(0, 2)) == 0:
        # self-intersecting faces: swapping two neighbouring corners of a convex quad makes a
        # bow tie, which emsarray must drop (with a warning) - the holes of a mesh
        spare = draw(st.integers(0, len(faces) - 1))
        for f, ring in enumerate(faces):
            if f != spare and quad_flags[f] and draw(st.integers(0, 2)) == 0:
                ring[1], ring[2] = ring[2], ring[1]
                invalid.append(f)
    return {"nodes": nodes, "faces": faces, "invalid": invalid, "overlap": overlap}


UGRID_NAMESETS = [
    {"mesh": "Mesh2", "face_node": "Mesh2_face_nodes", "edge_node": "Mesh2_edge_nodes",
     "face_edge": "Mesh2_face_edges", "edge_face": "Mesh2_edge_faces",
     "face_face": "Mesh2_face_links", "node_x": "Mesh2_node_x", "node_y": "Mesh2_node_y",
     "face_x": "Mesh2_face_x", "face_y": "Mesh2_face_y",
     "edge_x": "Mesh2_edge_x", "edge_y": "Mesh2_edge_y"},
    {"mesh": "mesh", "face_node": "fn", "edge_node": "en", "face_edge": "fe", "edge_face": "ef",
     "face_face": "ff", "node_x": "nx_", "node_y": "ny_", "face_x": "fx", "face_y": "fy",
     "edge_x": "ex", "edge_y": "ey"},
]
UGRID_DIMSETS = [
    {"face": "nMesh2_face", "node": "nMesh2_node", "edge": "nMesh2_edge",
     "max_node": "nMaxMesh2_face_nodes", "two": "Two"},
    {"face": "cell", "node": "vertex", "edge": "side", "max_node": "corner", "two": "pair"},
]
OPTIONAL_TABLES = ["edge_node", "face_edge", "edge_face", "face_face"]


@st.composite
def ugrid_encoding(draw, supply=None, coords_as=None, allow_transpose=True,
                   dtypes=("i4", "i4", "i8", "i2", "u4", "u2"),
                   require_edge_node=True):
    if supply is None:
        supply = [t for t in OPTIONAL_TABLES if draw(st.booleans())]
    if (require_edge_node and ("face_edge" in supply or "edge_face" in supply)
            and "edge_node" not in supply):
        # edge indexes are only defined by the edge-node table: a mesh that refers to edges
        # must say what they are (UGRID conventions)
        supply = ["edge_node"] + list(supply)
    transposed = []
    if allow_transpose:
        transposed = [t for t in ["face_node"] + list(supply) if draw(st.integers(0, 3)) == 0]
    edge_dim_attr = draw(st.booleans())
    edge_coords = draw(st.booleans())
    if edge_dim_attr and "edge_node" not in supply and "edge_face" not in supply \
            and "face_edge" in supply:
        # (a face-edge table needs its edges to be somewhere)
        edge_coords = True
    # Otherwise the mesh may declare an edge dimension that nothing in the dataset uses: the
    # dimension then exists in name only (emsarray derives the edge count from the faces).
    return {
        "names": draw(st.sampled_from(UGRID_NAMESETS)),
        "dims": draw(st.sampled_from(UGRID_DIMSETS)),
        "start_index": (start_index := draw(st.sampled_from([None, 0, 1, 1]))),
        "fill": draw(st.sampled_from(["nan", "int", "int"])),
        "fill_value": draw(st.sampled_from([None, -1, -999, 0, 0] if start_index == 1 else
                                          [None, None, -1, -999])),
        "dtype": draw(st.sampled_from(dtypes)),
        "supply": list(supply),
        "transposed": transposed,
        "edge_dim_attr": edge_dim_attr,
        "face_dim_attr": draw(st.booleans()),
        "coords_as": draw(st.sampled_from(["var", "var", "coord"])) if coords_as is None else coords_as,
        "face_coords": draw(st.booleans()),
        "edge_coords": edge_coords,
        # a boundary edge's single face may sit in either column of a supplied edge-face table
        "edge_face_fill_first": draw(st.booleans()),
        # the face tables may be wider than the largest face (all-triangle mesh in a table
        # four columns wide): the surplus column holds only fill
        "pad_columns": draw(st.sampled_from([0, 0, 0, 1])),
        # attributes of the mesh variable that name a connectivity variable which is absent
        "dangling": [t for t in OPTIONAL_TABLES if draw(st.integers(0, 7)) == 0],
        # the global Conventions attribute lists UGRID alone or next to CF, separated by a
        # blank, a comma (both CF-legal) or a slash
        "conventions": draw(st.sampled_from(["UGRID-1.0", "UGRID-1.0", "UGRID", "CF-1.6 UGRID-1.0",
                                             "CF-1.6, UGRID-1.0", "CF-1.6,UGRID-1.0",
                                             "CF-1.6/UGRID-1.0", "UGRID-1.0 Deltares-0.10"])),
    }


@st.composite
def edge_numbering(draw, faces):
    ref = specs.mesh_edges(faces)
    edges = list(draw(st.permutations(ref)))
    return [[b, a] if draw(st.booleans()) else [a, b] for a, b in edges]


@st.composite
def ugrid_geom(draw, mesh=None, enc=None, **mesh_kwargs):
    m = draw(abstract_mesh(**mesh_kwargs)) if mesh is None else mesh
    e = draw(ugrid_encoding()) if enc is None else enc
    if m.get("overlap"):
        # an edge may then border three faces: the two-column tables cannot describe that
        e = dict(e, supply=[t for t in e["supply"] if t not in ("edge_face", "face_face")],
                 transposed=[t for t in e["transposed"] if t not in ("edge_face", "face_face")])
        if e["edge_dim_attr"] and "edge_node" not in e["supply"]:
            e["edge_coords"] = True
    return {"nodes": m["nodes"], "faces": m["faces"], "invalid": list(m.get("invalid", [])),
            "edges": draw(edge_numbering(m["faces"])), "enc": e}


def shift_geometry(g, dx=0.0, dy=0.0):
    """Move every coordinate of a geometry spec by (dx, dy) - exact for the dyadic coordinates
    used here.  Returns the same dict."""
    def move(item):
        if item is None:
            return None
        if len(item) == 2 and all(isinstance(v, (int, float)) for v in item):
            return [item[0] + dx, item[1] + dy]
        return [move(p) for p in item]
    if g.get("nodes") is not None:
        g["nodes"] = move(g["nodes"])
    if g.get("lon") is not None:
        g["lon"] = [v + dx for v in g["lon"]]
        if g.get("lon_bounds") is not None:
            g["lon_bounds"] = [[a + dx, b + dx] for a, b in g["lon_bounds"]]
    if g.get("lat") is not None:
        g["lat"] = [v + dy for v in g["lat"]]
        if g.get("lat_bounds") is not None:
            g["lat_bounds"] = [[a + dy, b + dy] for a, b in g["lat_bounds"]]
    return g


# ---- variables

EXTRA_DIM_CHOICES = [("time", 1, 3), ("depth", 2, 4), ("index", 1, 2), ("index_0", 1, 2), ("Two", 2, 2),
                     ("point", 1, 2), ("n", 1, 2)]


@st.composite
def extra_dims(draw, max_extra=3):
    chosen = draw(st.lists(st.sampled_from(EXTRA_DIM_CHOICES), max_size=max_extra,
                           unique_by=lambda c: c[0]))
    return {name: draw(st.integers(lo, hi)) for name, lo, hi in chosen}


@st.composite
def variable(draw, name, kinds, extra, dtypes=("f8", "f8", "f4", "i4", "i2"), allow_nan=True,
             grid_required=False, permute=True, n_grid_dims=2, sizes=None):
    kind = draw(st.sampled_from(list(kinds) + ([] if grid_required else [None])))
    mine = [d for d in extra if draw(st.booleans())]
    grid_tokens = [f"@{k}" for k in range(n_grid_dims)] if kind is not None else []
    dims = mine + grid_tokens
    if not dims:
        dims = list(extra)[:1] if extra else []
    if permute:
        dims = list(draw(st.permutations(dims)))
    dtype = draw(st.sampled_from(dtypes))
    fill = None
    if dtype in ("i4", "i2") and draw(st.booleans()):
        fill = [draw(st.sampled_from(["_FillValue", "missing_value"])),
                draw(st.sampled_from([-999, 32767 if dtype == "i2" else 999999, -1, 0]))]
    var = {"name": name, "kind": kind, "dims": dims, "dtype": dtype, "fill": fill}
    can_miss = dtype in ("f8", "f4", "M8") or fill is not None
    if allow_nan and can_miss and sizes is not None and draw(st.booleans()):
        total = 1
        for d in dims:
            total *= sizes(kind, d)
        var["nan"] = sorted(set(draw(st.lists(st.integers(0, total - 1), max_size=min(6, total)))))
    return var


@st.composite
def variables(draw, spec_so_far, max_vars=3, min_vars=1, **kwargs):
    shapes = specs.grid_shapes(spec_so_far)
    extra = spec_so_far.get("extra", {})
    n_grid = 1 if spec_so_far["conv"] == "ugrid" else 2

    def sizes(kind, d):
        if d.startswith("@"):
            return shapes[kind][int(d[1:])]
        return extra[d]

    n = draw(st.integers(min_vars, max_vars))
    out = []
    for k in range(n):
        out.append(draw(variable(f"v{k}", list(shapes), extra, n_grid_dims=n_grid,
                                 sizes=sizes, **kwargs)))
    return out


# ---- whole datasets

# cached properties that may be read, in any order, before a check starts looking
WARMUP_PROPERTIES = ["polygons", "mask", "strtree", "spatial_index", "face_centres", "geometry",
                     "bounds", "grid_size", "grid_kinds", "depth_coordinates", "topology"]

@st.composite
def geometry(draw, conv, **kw):
    g = draw(_geometry(conv, **kw))
    if g.get("detect") == "spelling":
        g["detect"] = f"spelling:{draw(st.integers(0, 5))}:{draw(st.integers(0, 5))}"
    return g


@st.composite
def _geometry(draw, conv, **kw):
    if conv == "cf1d":
        return draw(cf1d_geom(**{k: v for k, v in kw.items() if k in ("max_n", "bounds_kinds", "min_n")}))
    if conv == "cf2d":
        return draw(cf2d_geom(False, **{k: v for k, v in kw.items() if k in ("max_n", "holes", "bounds", "decoy", "twist")}))
    if conv == "shoc_simple":
        return draw(cf2d_geom(True, **{k: v for k, v in kw.items() if k in ("max_n", "holes", "bounds", "decoy", "twist")}))
    if conv in ("arakawa", "shoc_standard"):
        return draw(arakawa_geom(**{k: v for k, v in kw.items() if k in ("max_n", "holes")}))
    if conv == "ugrid":
        return draw(ugrid_geom(**{k: v for k, v in kw.items()
                                  if k in ("mesh", "enc", "max_j", "max_i", "allow_delete",
                                           "allow_merge", "jitter", "min_faces", "allow_bowtie", "allow_overlap",
                                           "unit_exps")}))
    raise ValueError(conv)


def without_clashing_extra(spec):
    """For sub-checks that swap the mesh encoding of a finished spec: an extra dimension (or a
    picked one) must not bear the name of one of the mesh's own dimensions."""
    if spec["conv"] != "ugrid":
        return spec
    taken = set(spec["geom"]["enc"]["dims"].values())
    clash = [d for d in spec.get("extra", {}) if d in taken]
    for d in clash:
        del spec["extra"][d]
        for var in spec.get("vars", []):
            var["dims"] = [x for x in var["dims"] if x != d]
        if spec.get("pick"):
            spec["pick"].pop(d, None)
    for var in spec.get("vars", []):
        if var.get("nan"):
            var.pop("nan")          # (positions were drawn for the old shape)
    return spec


@st.composite
def storage_options(draw, conv, with_vars=True):
    """How the arrays of a dataset are held, independent of what they mean: single precision
    geometry (where exact), column-major geometry arrays, column-major data arrays."""
    out = {}
    if conv != "cf1d" and draw(st.integers(0, 3)) == 0:
        out["coord_dtype"] = "f4"
    if conv != "cf1d" and draw(st.integers(0, 3)) == 0:
        out["coord_layout"] = "F"
    if with_vars and draw(st.integers(0, 3)) == 0:
        out["data_layout"] = "F"
    return out


@st.composite
def dimension_coordinates(draw, spec):
    """Integer dimension coordinates for some grid dimensions (a variable with the dimension's
    own name): one-based, shifted, reversed or shuffled labels, so that selecting by label and
    selecting by position are different things."""
    out = {}
    sizes = specs.dim_sizes(spec)
    taken = _variable_names(spec)
    for dims in specs.grid_dims(spec).values():
        for dim in dims:
            if dim in taken or dim in out or not draw(st.booleans()):
                continue
            n = sizes[dim]
            style = draw(st.sampled_from(["one_based", "shifted", "reversed", "shuffled"]))
            if style == "one_based":
                labels = list(range(1, n + 1))
            elif style == "shifted":
                labels = list(range(10, 10 + n))
            elif style == "reversed":
                labels = list(range(n - 1, -1, -1))
            else:
                labels = list(draw(st.permutations(range(n))))
            out[dim] = labels
    return out


def _variable_names(spec):
    """Names already used by variables of the geometry (a dimension coordinate of that name
    would replace them)."""
    names = set()
    g = spec["geom"]
    for key, value in (g.get("names") or {}).items():
        if key not in ("y", "x"):
            names.add(value)
    enc = g.get("enc") or {}
    for value in (enc.get("names") or {}).values():
        names.add(value)
    names.update(v["name"] for v in spec.get("vars") or [])
    return names


@st.composite
def dataset_spec(draw, convs=ALL_CONVS, max_vars=3, min_vars=1, max_extra=2,
                 modes=("raw", "raw", "decoded"), geom_kwargs=None, var_kwargs=None,
                 with_vars=True, dim_coords=True, pick=True):
    conv = draw(st.sampled_from(list(convs)))
    spec = {"conv": conv, "geom": draw(geometry(conv, **(geom_kwargs or {})))}
    spec["extra"] = draw(extra_dims(max_extra)) if with_vars else {}
    # the dimension name must not clash with grid dimension names
    taken = {d for dims in specs.grid_dims(spec).values() for d in dims}
    if conv == "ugrid":
        taken |= set(spec["geom"]["enc"]["dims"].values())       # also the table-width dimensions
    spec["extra"] = {k: v for k, v in spec["extra"].items() if k not in taken}
    if conv == "shoc_simple" and "time" in spec["extra"]:
        # SHOC simple files always carry a 'time' coordinate variable for their 'time'
        # dimension (ShocSimple.time_coordinate relies on it); a bare dimension of that name
        # is not a SHOC simple dataset.  The time coordinate itself is added where needed.
        spec["extra"]["tstep"] = spec["extra"].pop("time")
    spec["vars"] = draw(variables(spec, max_vars=max_vars, min_vars=min_vars,
                                  **(var_kwargs or {}))) if with_vars else []
    spec.update(draw(storage_options(conv, with_vars)))
    if with_vars and draw(st.integers(0, 5)) == 0:
        # dimensions named like the defaults emsarray makes up ("index", "point"), used by
        # nothing but a coordinate variable
        spec["coord_only_dims"] = {name: draw(st.integers(2, 3))
                                   for name in draw(st.lists(st.sampled_from(["index", "index_0", "point"]),
                                                             min_size=1, max_size=2, unique=True))}
    if conv == "arakawa":
        spec["coord_names_order"] = list(draw(st.permutations(["face", "left", "back", "node"])))
    if dim_coords and draw(st.integers(0, 3)) == 0:
        spec["dim_coords"] = draw(dimension_coordinates(spec))
    free = [d for d in spec["extra"] if any(d in v["dims"] for v in spec["vars"])]
    if pick and free and draw(st.integers(0, 4)) == 0:
        # one index of a non-grid dimension picked beforehand, as in ds.isel(time=0)
        d = draw(st.sampled_from(sorted(free)))
        spec["pick"] = {d: draw(st.integers(0, spec["extra"][d] - 1))}
    spec["mode"] = draw(st.sampled_from(list(modes)))
    spec["bind"] = draw(st.sampled_from(["auto", "auto", "explicit"]))
    spec["warmup"] = draw(st.lists(st.sampled_from(WARMUP_PROPERTIES), max_size=4, unique=True))
    if conv in ("cf1d", "cf2d") and spec["bind"] == "explicit" and draw(st.booleans()):
        spec["decoy_latlon"] = True
    return spec


# ---- star-shaped (usually concave) stand-alone faces, for triangulation

STAR_DIRECTIONS = [(4, 0), (4, 2), (3, 3), (2, 4), (0, 4), (-2, 4), (-3, 3), (-4, 2),
                   (-4, 0), (-4, -2), (-3, -3), (-2, -4), (0, -4), (2, -4), (3, -3), (4, -2)]


@st.composite
def star_polygon(draw, cx, cy, unit):
    """A simple polygon with 4-8 vertices at strictly increasing angles around (cx, cy) and
    random radii: star-shaped by construction, usually concave, sometimes with collinear
    vertices.  Random ring start and winding."""
    positions = [draw(st.integers(0, 2))]
    while True:
        nxt = positions[-1] + draw(st.integers(2, 5))
        if nxt - positions[0] > 15:
            break
        positions.append(nxt)
    if len(positions) < 3 or 16 - (positions[-1] - positions[0]) > 7:
        positions = [0, 4, 8, 12]
    ring = []
    for p in positions:
        dx, dy = STAR_DIRECTIONS[p % 16]
        r = draw(st.integers(1, 3))
        ring.append([cx + unit * r * dx, cy + unit * r * dy])
    s = draw(st.integers(0, len(ring) - 1))
    ring = ring[s:] + ring[:s]
    if draw(st.booleans()):
        ring = ring[::-1]
    return ring


@st.composite
def mesh_with_stars(draw, max_stars=4):
    """An abstract mesh (as abstract_mesh) with additional stand-alone star-shaped faces."""
    m = draw(abstract_mesh(max_j=2, max_i=3, allow_bowtie=draw(st.booleans())))
    nodes = [list(p) for p in m["nodes"]]
    faces = [list(f) for f in m["faces"]]
    invalid = list(m["invalid"])
    n_stars = draw(st.integers(1, max_stars))
    unit = 2.0 ** -draw(st.sampled_from([2, 3, 3]))
    for k in range(n_stars):
        ring = draw(star_polygon(200.0 + 40 * k, -60.0, unit))
        base = len(nodes)
        nodes.extend(ring)
        face = list(range(base, base + len(ring)))
        faces.insert(draw(st.integers(0, len(faces))), face)
    # inserting shifts the positions of the invalid faces: recompute by identity
    bad = [m["faces"][f] for f in invalid]
    invalid = [k for k, f in enumerate(faces) if any(f == b for b in bad)]
    return {"nodes": nodes, "faces": faces, "invalid": invalid}
