"""
Reference models (oracles).  Plain loops and scalar arithmetic over the *spec*; nothing here calls
emsarray, numpy reshape/ravel_multi_index/pad, or an STRtree.
"""
from fractions import Fraction

from vf import specs

# --------------------------------------------------------------------------------------------
# R-index


def kinds(spec):
    return list(specs.grid_shapes(spec).keys())


def grid_size(spec, kind):
    n = 1
    for s in specs.grid_shapes(spec)[kind]:
        n *= s
    return n


def native_components(spec, kind, lin):
    """Row-major decomposition of a linear index into per-dimension indexes."""
    shape = specs.grid_shapes(spec)[kind]
    comps = []
    rest = lin
    for s in reversed(shape):
        rest, r = divmod(rest, s)
        comps.append(r)
    return tuple(reversed(comps))


def linear_of(spec, kind, comps):
    shape = specs.grid_shapes(spec)[kind]
    lin = 0
    for s, c in zip(shape, comps):
        lin = lin * s + c
    return lin


def native_index(spec, kind, lin, kind_enum=None):
    """The convention's native index for linear index ``lin``.  ``kind_enum`` is the emsarray enum
    member standing for ``kind`` (needed for the multi-grid conventions)."""
    comps = native_components(spec, kind, lin)
    conv = spec["conv"]
    if conv in ("cf1d", "cf2d", "shoc_simple"):
        return tuple(comps)
    if conv in ("arakawa", "shoc_standard"):
        return (kind_enum, comps[0], comps[1])
    if conv == "ugrid":
        return (kind_enum, comps[0])
    raise ValueError(conv)


def kind_enums(convention):
    """{kind name: enum member} for an emsarray convention instance."""
    return {k.name: k for k in convention.grid_kinds}


# --------------------------------------------------------------------------------------------
# R-cells: the corner sequence of every face, or None for a hole

def cf1d_bounds(values, stored):
    """Bounds rows for a 1-D axis: stored ones, or midpoints with half-gap extrapolation."""
    if stored is not None:
        return [tuple(r) for r in stored]
    n = len(values)
    edges = [values[0] - (values[1] - values[0]) / 2]
    for k in range(n - 1):
        edges.append((values[k] + values[k + 1]) / 2)
    edges.append(values[-1] + (values[-1] - values[-2]) / 2)
    return [(edges[k], edges[k + 1]) for k in range(n)]


def cells(spec):
    """List over face linear index of corner lists [(x, y), ...] or None (hole).
    For conventions where the statement defines the construction only."""
    conv, g = spec["conv"], spec["geom"]
    out = []
    if conv == "cf1d":
        latb = cf1d_bounds(g["lat"], g.get("lat_bounds"))
        lonb = cf1d_bounds(g["lon"], g.get("lon_bounds"))
        for j in range(len(g["lat"])):
            for i in range(len(g["lon"])):
                (y0, y1), (x0, x1) = latb[j], lonb[i]
                out.append([(x0, y0), (x1, y0), (x1, y1), (x0, y1)])
        return out
    if conv in ("cf2d", "shoc_simple", "arakawa", "shoc_standard"):
        nodes = g["nodes"]
        holes = g.get("holes")
        twisted = g.get("twisted") or []
        nj, ni = len(nodes) - 1, len(nodes[0]) - 1
        for j in range(nj):
            for i in range(ni):
                if (holes is not None and holes[j][i]) or [j, i] in twisted:
                    out.append(None)
                    continue
                pts = [nodes[a][b] for a, b in specs.cell_corner_nodes(j, i)]
                if any(p is None for p in pts):
                    out.append(None)
                else:
                    out.append([tuple(p) for p in pts])
        return out
    if conv == "ugrid":
        nodes = g["nodes"]
        invalid = set(g.get("invalid") or ())
        for f, face in enumerate(g["faces"]):
            pts = [nodes[k] for k in face]
            if f in invalid or any(p is None for p in pts):
                out.append(None)       # self-intersecting by construction, or no coordinates
            else:
                out.append([tuple(p) for p in pts])
        return out
    raise ValueError(conv)


def invalid_cells(spec):
    """Linear indexes of cells that have coordinates but are self-intersecting by construction."""
    conv, g = spec["conv"], spec["geom"]
    if conv == "ugrid":
        return sorted(g.get("invalid") or [])
    if conv in ("cf2d", "shoc_simple"):
        ni = len(g["nodes"][0]) - 1
        return sorted(j * ni + i for j, i in (g.get("twisted") or []))
    return []


def cells_defined_by_statement(spec):
    """False for 2-D CF grids without stored bounds: there the polygons are synthesised by the
    implementation and the property statement defines no construction for them."""
    if spec["conv"] in ("cf2d", "shoc_simple"):
        return bool(spec["geom"]["bounds"])
    return True


def ring_normal_form(points):
    """Canonical form of a closed ring given as an open corner list: direction and start
    normalised, so two corner lists describe the same ring iff their normal forms are equal."""
    pts = [tuple(p) for p in points]
    if len(pts) > 1 and pts[0] == pts[-1]:
        pts = pts[:-1]
    n = len(pts)
    best = None
    for seq in (pts, pts[::-1]):
        for s in range(n):
            cand = tuple(seq[s:] + seq[:s])
            if best is None or cand < best:
                best = cand
    return best


def polygon_ring(polygon):
    return [tuple(c) for c in polygon.exterior.coords]


def shoelace_area2(points):
    """Twice the signed area, exact for Fractions."""
    n = len(points)
    s = 0
    for k in range(n):
        x0, y0 = points[k]
        x1, y1 = points[(k + 1) % n]
        s += x0 * y1 - x1 * y0
    return s


# --------------------------------------------------------------------------------------------
# R-pip: exact point in closed polygon

def _fr(v):
    return Fraction(v)


def _on_segment(p, a, b):
    (px, py), (ax, ay), (bx, by) = p, a, b
    cross = (bx - ax) * (py - ay) - (by - ay) * (px - ax)
    if cross != 0:
        return False
    return min(ax, bx) <= px <= max(ax, bx) and min(ay, by) <= py <= max(ay, by)


def point_in_closed_polygon(point, corners):
    """True iff the point lies inside or on the boundary of the simple polygon ``corners``."""
    p = (_fr(point[0]), _fr(point[1]))
    pts = [(_fr(x), _fr(y)) for x, y in corners]
    n = len(pts)
    for k in range(n):
        if _on_segment(p, pts[k], pts[(k + 1) % n]):
            return True
    inside = False
    px, py = p
    for k in range(n):
        (ax, ay), (bx, by) = pts[k], pts[(k + 1) % n]
        if (ay > py) != (by > py):
            # x coordinate where the edge crosses the horizontal line through p
            x_cross = ax + (py - ay) * (bx - ax) / (by - ay)
            if x_cross > px:
                inside = not inside
    return inside


# --------------------------------------------------------------------------------------------
# R-mask

def chebyshev_dilate(mask, size):
    """Brute force: out[j][i] iff some True cell within Chebyshev distance ``size``."""
    h = len(mask)
    w = len(mask[0]) if h else 0
    out = [[False] * w for _ in range(h)]
    for j in range(h):
        for i in range(w):
            hit = False
            for jj in range(max(0, j - size), min(h, j + size + 1)):
                for ii in range(max(0, i - size), min(w, i + size + 1)):
                    if mask[jj][ii]:
                        hit = True
                        break
                if hit:
                    break
            out[j][i] = hit
    return out


def c_grid_masks(face_mask):
    """left / back / node masks by the incidence definition of the Arakawa C grid."""
    nj = len(face_mask)
    ni = len(face_mask[0]) if nj else 0
    left = [[False] * (ni + 1) for _ in range(nj)]
    back = [[False] * ni for _ in range(nj + 1)]
    node = [[False] * (ni + 1) for _ in range(nj + 1)]
    for j in range(nj):
        for i in range(ni):
            if face_mask[j][i]:
                left[j][i] = left[j][i + 1] = True
                back[j][i] = back[j + 1][i] = True
                node[j][i] = node[j][i + 1] = node[j + 1][i] = node[j + 1][i + 1] = True
    return left, back, node


def mesh_node_ring(faces, selected):
    """One buffer ring on a mesh: every face sharing a node with a selected face."""
    nodes = set()
    for f in selected:
        nodes.update(faces[f])
    return sorted(f for f, face in enumerate(faces) if f in selected or nodes & set(face))


# --------------------------------------------------------------------------------------------
# R-depth

def physical_depth(value, positive):
    """Depth below the surface of a coordinate value."""
    return value if positive == "down" else -value


# --------------------------------------------------------------------------------------------
# R-clip-line: exact length of the part of a segment that lies in a closed simple polygon

def _seg_params(a, b, c, d):
    """Parameters t in [0, 1] on segment ab where it meets segment cd (crossing, touching or the
    two ends of a collinear overlap).  Exact for Fractions."""
    (ax, ay), (bx, by), (cx, cy), (dx, dy) = a, b, c, d
    rx, ry = bx - ax, by - ay
    sx, sy = dx - cx, dy - cy
    denom = rx * sy - ry * sx
    qpx, qpy = cx - ax, cy - ay
    out = []
    if denom != 0:
        t = (qpx * sy - qpy * sx) / denom
        u = (qpx * ry - qpy * rx) / denom
        if 0 <= t <= 1 and 0 <= u <= 1:
            out.append(t)
        return out
    if qpx * ry - qpy * rx != 0:
        return out          # parallel, not collinear
    rr = rx * rx + ry * ry
    if rr == 0:
        return out
    t0 = (qpx * rx + qpy * ry) / rr
    t1 = t0 + (sx * rx + sy * ry) / rr
    lo, hi = min(t0, t1), max(t0, t1)
    if hi < 0 or lo > 1:
        return out
    out.extend([max(lo, Fraction(0)), min(hi, Fraction(1))])
    return out


def inside_fraction(ring, a, b):
    """Fraction of the segment ab (as a Fraction in [0, 1]) that lies in the closed polygon."""
    pts = [(_fr(x), _fr(y)) for x, y in ring]
    a = (_fr(a[0]), _fr(a[1]))
    b = (_fr(b[0]), _fr(b[1]))
    cuts = {Fraction(0), Fraction(1)}
    n = len(pts)
    for k in range(n):
        cuts.update(_seg_params(a, b, pts[k], pts[(k + 1) % n]))
    cuts = sorted(cuts)
    total = Fraction(0)
    for t0, t1 in zip(cuts, cuts[1:]):
        if t1 == t0:
            continue
        tm = (t0 + t1) / 2
        mid = (a[0] + (b[0] - a[0]) * tm, a[1] + (b[1] - a[1]) * tm)
        if point_in_closed_polygon(mid, pts):
            total += t1 - t0
    return total


def path_length_inside(ring, path):
    """Length of the polyline ``path`` inside the closed polygon ``ring`` (float at the end)."""
    import math
    total = 0.0
    for a, b in zip(path, path[1:]):
        frac = inside_fraction(ring, a, b)
        if frac:
            total += float(frac) * math.hypot(b[0] - a[0], b[1] - a[1])
    return total


def path_runs_exactly_along(ring, path):
    """True when some leg of the path overlaps some edge of the ring over a positive length in
    exact rational arithmetic on the float coordinates (collinear, not merely close)."""
    from fractions import Fraction as F

    def fr(p):
        return (F(p[0]), F(p[1]))
    n = len(ring)
    for p, q in zip(path, path[1:]):
        p, q = fr(p), fr(q)
        for k in range(n):
            a, b = fr(ring[k]), fr(ring[(k + 1) % n])
            dx, dy = b[0] - a[0], b[1] - a[1]
            if dx == 0 and dy == 0:
                continue
            if dx * (p[1] - a[1]) - dy * (p[0] - a[0]) != 0 or dx * (q[1] - a[1]) - dy * (q[0] - a[0]) != 0:
                continue
            # parameters of p and q along a -> b
            den = dx * dx + dy * dy
            tp = ((p[0] - a[0]) * dx + (p[1] - a[1]) * dy) / den
            tq = ((q[0] - a[0]) * dx + (q[1] - a[1]) * dy) / den
            lo, hi = max(min(tp, tq), 0), min(max(tp, tq), 1)
            if hi > lo:
                return True
    return False


def path_length_band(ring, path, delta):
    """(lo, hi): length of the path inside the ring shrunk / grown by delta (GEOS, float): the
    band within which any answer is defensible when the path hugs an edge only up to rounding."""
    import shapely
    from shapely.geometry import LineString, Polygon
    poly = Polygon(ring)
    line = LineString(path)
    inner = poly.buffer(-delta)
    outer = poly.buffer(delta)
    lo = 0.0 if inner.is_empty else inner.intersection(line).length
    hi = outer.intersection(line).length
    return lo, hi
