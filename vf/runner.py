"""
The check runner: tiers, seeds, sharding, evidence, replay, known findings, exit codes.

A property module exposes

    PROPERTY = "C01"
    RULE = "how cases are generated and what makes one non-trivial"
    ASSUMPTIONS = [...]
    SUBS = [Sub(...), ...]          # Hypothesis-driven sub-checks
    ENUMS = [Enum(...), ...]        # optional: finite enumerations (no Hypothesis)
    MATCHERS = {name: predicate}    # optional: known-finding matchers

Exit codes: 0 held on everything explored; 1 violation (prints ``VIOLATION property=.. replay=..``);
2 harness error (never a VIOLATION line).
"""
import dataclasses
import hashlib
import importlib
import json
import multiprocessing
import os
import sys
import time
import traceback
import warnings
import zlib
from collections import Counter

from vf.common import (
    VERIF_DIR, HarnessError, Violation, exception_escaped_emsarray, innermost_emsarray_frame,
)

EVIDENCE_DIR = os.environ.get("VERIF_EVIDENCE_DIR") or os.path.join(VERIF_DIR, "evidence")
# Committed regression inputs live in REPLAY_DIR; fresh violations are written to NEW_REPLAY_DIR
# (the same place unless a mutant run redirects them).
REPLAY_DIR = os.path.join(VERIF_DIR, "replays")
NEW_REPLAY_DIR = os.environ.get("VERIF_NEW_REPLAY_DIR") or REPLAY_DIR
FINDINGS_FILE = os.path.join(VERIF_DIR, "known_findings.json")


@dataclasses.dataclass
class Sub:
    """One Hypothesis-driven sub-check."""
    name: str
    strategy: object            # callable(tier) -> hypothesis strategy of JSON-able cases
    check: object               # callable(case, ctx); raises Violation
    quick: int = 200            # examples per shard, quick tier
    thorough: int = 1000        # examples per shard, thorough tier
    budget_s: float = 0         # soft wall budget per shard (0 = none); exceeding => inconclusive
    shrink: bool = True         # False for sub-checks whose cases are too expensive to shrink


@dataclasses.dataclass
class Enum:
    """A finite enumeration, split over shards by ``index % n_shards``."""
    name: str
    cases: object               # callable(tier) -> iterable of JSON-able cases
    check: object               # callable(case, ctx)
    exhaustive_in: tuple = ("thorough",)   # tiers in which the enumeration is complete


def case_hash(case):
    blob = json.dumps(case, sort_keys=True, default=str).encode()
    return hashlib.sha1(blob).hexdigest()[:16]


def abbreviate(obj, max_list=12, depth=0):
    """Shorten a case for the evidence samples."""
    if isinstance(obj, dict):
        return {k: abbreviate(v, max_list, depth + 1) for k, v in obj.items()}
    if isinstance(obj, (list, tuple)):
        if len(obj) > max_list:
            return [abbreviate(v, max_list, depth + 1) for v in obj[:max_list]] + [f"... {len(obj)} items"]
        return [abbreviate(v, max_list, depth + 1) for v in obj]
    return obj


class Ctx:
    """Per-shard context handed to every check call: counters, known findings, failure record."""

    def __init__(self, prop_id, findings, matchers):
        self.prop_id = prop_id
        self.findings = [f for f in findings if f.get("property") == prop_id
                         and f.get("status") == "open"]
        self.matchers = matchers or {}
        self.labels = Counter()
        self.known_hits = Counter()
        self.nontrivial_hashes = set()
        self.evaluations = 0
        self.samples = []
        self.any_samples = []
        self.clause = None
        self.case = None
        self._case_flagged = False
        self.sub = None
        self.skipped_budget = 0
        self.collect_known = None   # set to a list during known-finding replay

    # -- used by checks
    def begin(self, sub, case):
        self.sub = sub
        self.case = case
        self.clause = None
        self._case_flagged = False
        self.evaluations += 1
        if len(self.any_samples) < 2:
            self.any_samples.append({"sub": sub, "case": abbreviate(case), "trivial": True})

    def label(self, name, n=1):
        self.labels[name] += n

    def nontrivial(self, flag=True):
        if flag and not self._case_flagged:
            self._case_flagged = True
            h = case_hash([self.sub, self.case])
            if h not in self.nontrivial_hashes:
                self.nontrivial_hashes.add(h)
                if len(self.samples) < 6:
                    self.samples.append({"sub": self.sub, "case": abbreviate(self.case)})

    def at(self, clause):
        """Name the clause being evaluated (used to attribute escaping exceptions)."""
        self.clause = clause

    def fail(self, clause, detail, **info):
        """Report a failing clause.  Returns normally (so the check can go on with other
        clauses) only when the failure is a listed known finding."""
        for finding in self.findings:
            if finding.get("clause") != clause:
                continue
            matcher = self.matchers.get(finding.get("matcher"))
            if matcher is None:
                continue
            try:
                ok = matcher(self.case, info)
            except Exception:
                ok = False
            if ok:
                self.known_hits[finding["id"]] += 1
                if self.collect_known is not None:
                    self.collect_known.append(finding["id"])
                return
        raise Violation(clause, detail, info)

    def check(self, cond, clause, detail, **info):
        if not cond:
            self.fail(clause, detail() if callable(detail) else detail, **info)

    def using(self, clause, what):
        """Context manager: an exception raised while *using a value emsarray returned* (for
        example isel() with a selector it built) is a violation of ``clause``, not a harness
        error."""
        return _Using(self, clause, what)

    def raises(self, clause, fn, what, exc_types=Exception):
        """Assert positively that ``fn()`` is rejected with an exception."""
        try:
            result = fn()
        except exc_types:
            return True
        self.fail(clause, f"{what}: expected an error, got {result!r}")
        return False


class _Using:
    def __init__(self, ctx, clause, what):
        self.ctx, self.clause, self.what = ctx, clause, what

    def __enter__(self):
        self.ctx.at(self.clause)
        return self

    def __exit__(self, exc_type, exc, tb):
        if exc is None or isinstance(exc, (Violation, HarnessError, KeyboardInterrupt, SystemExit)):
            return False
        self.ctx.fail(self.clause, f"{self.what}: {exc_type.__name__}: {exc}")
        return True


def load_findings():
    if not os.path.exists(FINDINGS_FILE):
        return []
    with open(FINDINGS_FILE) as f:
        return json.load(f).get("findings", [])


def classify_exception(exc, ctx):
    """Turn whatever escaped a check into (kind, clause, detail): kind is 'violation' or
    'harness'."""
    if isinstance(exc, Violation):
        return "violation", exc.clause, exc.detail
    if isinstance(exc, HarnessError):
        return "harness", None, str(exc)
    if exception_escaped_emsarray(exc):
        frame = innermost_emsarray_frame(exc)
        clause = ctx.clause or f"{ctx.prop_id}.no_exception"
        return "violation", clause, (
            f"{type(exc).__name__}: {exc} escaped emsarray at {frame}")
    return "harness", None, "".join(traceback.format_exception(exc))[-3000:]


def _seed_for(seed, shard, name):
    return (zlib.crc32(f"{seed}/{shard}/{name}".encode()) ^ (seed * 2654435761)) & 0x7FFFFFFF


def checked(check, case, ctx):
    """Run one check; afterwards every dataset it opened through open_case must be bit for bit
    what it was (dims, dtypes, values, attributes): no operation under test is documented to
    write into its input, and every property presupposes that reading does not change the data."""
    from vf.props import _util
    from vf import specs
    _util.reset_opened()
    try:
        check(case, ctx)
        _util.verify_untouched(ctx)
    finally:
        specs.release_files()


def _make_body(sub, state, t0, ctx):
    def body(case):
        if sub.budget_s and time.time() - t0 > sub.budget_s and state["last_fail"] is None:
            ctx.skipped_budget += 1
            return
        ctx.begin(sub.name, case)
        state["ran"] += 1
        try:
            checked(sub.check, case, ctx)
        except BaseException as exc:  # noqa: BLE001
            if isinstance(exc, (KeyboardInterrupt, SystemExit)):
                raise
            state["last_fail"] = (case, exc)
            raise
    return body


def run_shard(args):
    """Run every sub-check (and enumeration slice) of one property in this process."""
    prop_id, tier, seed, shard, n_shards, only = args
    warnings.simplefilter("ignore")
    if os.environ.get("VERIF_WATCHDOG"):
        import faulthandler
        faulthandler.dump_traceback_later(int(os.environ["VERIF_WATCHDOG"]), exit=True)
    import hypothesis
    from hypothesis import HealthCheck, Phase, given, settings

    module = importlib.import_module(f"vf.props.{prop_id.lower()}")
    findings = load_findings()
    ctx = Ctx(prop_id, findings, getattr(module, "MATCHERS", {}))
    result = {"shard": shard, "failure": None, "harness": None, "subs": {}, "enums": {}}
    t_start = time.time()

    def record_failure(sub_name, case, exc):
        kind, clause, detail = classify_exception(exc, ctx)
        if kind == "harness":
            result["harness"] = {"sub": sub_name, "detail": detail, "case": case}
        else:
            result["failure"] = {"sub": sub_name, "clause": clause, "detail": detail, "case": case}

    for enum in getattr(module, "ENUMS", []):
        if only and enum.name not in only:
            continue
        t0 = time.time()
        n = 0
        for idx, case in enumerate(enum.cases(tier)):
            if idx % n_shards != shard:
                continue
            ctx.begin(enum.name, case)
            n += 1
            try:
                checked(enum.check, case, ctx)
            except BaseException as exc:  # noqa: BLE001
                if isinstance(exc, (KeyboardInterrupt, SystemExit)):
                    raise
                record_failure(enum.name, case, exc)
                break
        result["enums"][enum.name] = {"cases": n, "wall_s": time.time() - t0,
                                      "exhaustive": tier in enum.exhaustive_in}
        if result["failure"] or result["harness"]:
            break

    for sub in getattr(module, "SUBS", []):
        if result["failure"] or result["harness"]:
            break
        if only and sub.name not in only:
            continue
        n_examples = sub.quick if tier == "quick" else sub.thorough
        scale = float(os.environ.get("VERIF_SCALE", "1"))
        n_examples = max(1, int(n_examples * scale))
        t0 = time.time()
        state = {"last_fail": None, "ran": 0}

        body = _make_body(sub, state, t0, ctx)

        test = given(sub.strategy(tier))(body)
        test = hypothesis.seed(_seed_for(seed, shard, sub.name))(test)
        test = settings(
            max_examples=n_examples, database=None, deadline=None, derandomize=False,
            report_multiple_bugs=False, suppress_health_check=list(HealthCheck),
            phases=(Phase.generate, Phase.shrink) if sub.shrink else (Phase.generate,),
            print_blob=False,
        )(test)
        try:
            test()
        except BaseException as exc:  # noqa: BLE001
            if isinstance(exc, (KeyboardInterrupt, SystemExit)):
                raise
            if state["last_fail"] is not None:
                case, inner = state["last_fail"]
                record_failure(sub.name, case, inner)
            else:
                result["harness"] = {"sub": sub.name, "case": None,
                                     "detail": "".join(traceback.format_exception(exc))[-3000:]}
        result["subs"][sub.name] = {"examples": state["ran"], "wall_s": time.time() - t0}

    result.update({
        "evaluations": ctx.evaluations,
        "nontrivial": sorted(ctx.nontrivial_hashes),
        "samples": ctx.samples or ctx.any_samples,
        "labels": dict(ctx.labels),
        "known_hits": dict(ctx.known_hits),
        "skipped_budget": ctx.skipped_budget,
        "wall_s": time.time() - t_start,
    })
    return result


def replay_case(prop_id, sub_name, case):
    """Evaluate one stored case directly (no Hypothesis).  Returns (status, clause, detail,
    known_ids) where status is 'pass' | 'violation' | 'harness'."""
    module = importlib.import_module(f"vf.props.{prop_id.lower()}")
    ctx = Ctx(prop_id, load_findings(), getattr(module, "MATCHERS", {}))
    ctx.collect_known = []
    target = None
    for item in list(getattr(module, "SUBS", [])) + list(getattr(module, "ENUMS", [])):
        if item.name == sub_name:
            target = item
    if target is None:
        return "harness", None, f"no sub-check named {sub_name!r} in {prop_id}", []
    ctx.begin(sub_name, case)
    try:
        with warnings.catch_warnings():
            warnings.simplefilter("ignore")
            checked(target.check, case, ctx)
    except BaseException as exc:  # noqa: BLE001
        if isinstance(exc, (KeyboardInterrupt, SystemExit)):
            raise
        kind, clause, detail = classify_exception(exc, ctx)
        return kind, clause, detail, ctx.collect_known
    return "pass", None, None, ctx.collect_known


def write_replay(prop_id, failure):
    os.makedirs(os.path.join(NEW_REPLAY_DIR, prop_id), exist_ok=True)
    h = case_hash([failure["sub"], failure["case"]])
    path = os.path.join(NEW_REPLAY_DIR, prop_id, f"violation-{h}.json")
    with open(path, "w") as f:
        json.dump({"property": prop_id, "sub": failure["sub"], "clause": failure["clause"],
                   "detail": failure["detail"], "case": failure["case"]}, f, indent=1,
                  default=str)
    return path


def run_regressions(prop_id):
    """Replay every committed regression input of the property.  Returns (n, failure)."""
    d = os.path.join(REPLAY_DIR, prop_id)
    n = 0
    if not os.path.isdir(d):
        return 0, None
    known_replays = {f.get("replay") for f in load_findings() if f.get("status") == "open"}
    for name in sorted(os.listdir(d)):
        if not name.endswith(".json") or name.startswith("violation-"):
            continue
        rel = os.path.join("replays", prop_id, name)
        if rel in known_replays:
            continue
        with open(os.path.join(d, name)) as f:
            rec = json.load(f)
        status, clause, detail, _ = replay_case(prop_id, rec["sub"], rec["case"])
        n += 1
        if status == "violation":
            return n, {"sub": rec["sub"], "clause": clause, "detail": detail, "case": rec["case"],
                       "path": os.path.join(d, name)}
        if status == "harness":
            raise HarnessError(f"regression {name}: {detail}")
    return n, None


def report_known_findings(prop_id):
    """For every open finding: replay its stored input; print KNOWN-FINDING while it still
    fails in the listed way."""
    lines = []
    for finding in load_findings():
        if finding.get("property") != prop_id or finding.get("status") != "open":
            continue
        path = os.path.join(VERIF_DIR, finding["replay"])
        with open(path) as f:
            rec = json.load(f)
        status, clause, detail, known = replay_case(prop_id, rec["sub"], rec["case"])
        if status == "pass" and finding["id"] in known:
            lines.append(f"KNOWN-FINDING: property={prop_id} {finding['what']}")
        elif status == "pass":
            lines.append(f"note: known finding {finding['id']} no longer reproduces")
        elif status == "violation":
            # the stored input now fails in some other way: that is a new violation
            return lines, {"sub": rec["sub"], "clause": clause, "detail": detail,
                           "case": rec["case"]}
        else:
            raise HarnessError(f"known finding {finding['id']}: {detail}")
    return lines, None


def main(prop_id, tier, replay=None, only=None):
    from vf.common import import_emsarray
    t0 = time.time()
    if os.environ.get("VERIF_WATCHDOG"):
        import faulthandler
        faulthandler.dump_traceback_later(int(os.environ["VERIF_WATCHDOG"]) + 30, exit=True)
    seed = int(os.environ.get("VERIF_SEED", "1") or "1")
    try:
        import_emsarray()
        module = importlib.import_module(f"vf.props.{prop_id.lower()}")
    except Exception:
        traceback.print_exc()
        print(f"HARNESS-ERROR property={prop_id} cannot import")
        return 2

    if replay:
        with open(replay) as f:
            rec = json.load(f)
        status, clause, detail, known = replay_case(prop_id, rec["sub"], rec["case"])
        if status == "violation":
            print(f"clause {clause}: {detail}")
            print(f"VIOLATION property={prop_id} replay={replay}")
            return 1
        if status == "harness":
            print(detail)
            print(f"HARNESS-ERROR property={prop_id}")
            return 2
        for k in known:
            print(f"KNOWN-FINDING: property={prop_id} {k}")
        print(f"replay passed: {replay}")
        return 0

    default_shards = "4" if tier == "quick" else "16"
    n_shards = int(os.environ.get("VERIF_SHARDS", default_shards))
    args = [(prop_id, tier, seed, k, n_shards, only) for k in range(n_shards)]
    try:
        n_reg, reg_failure = run_regressions(prop_id)
        known_lines, known_failure = report_known_findings(prop_id)
    except HarnessError as exc:
        print(exc)
        print(f"HARNESS-ERROR property={prop_id}")
        return 2
    if n_shards == 1:
        results = [run_shard(args[0])]
    else:
        # spawn, not fork: HDF5 / dask threads do not survive a fork.  ProcessPoolExecutor (unlike
        # multiprocessing.Pool) notices a worker that died instead of waiting for ever.
        import concurrent.futures
        limit = float(os.environ.get("VERIF_SHARD_TIMEOUT", "1500" if tier == "quick" else "5400"))
        ctxm = multiprocessing.get_context("spawn")
        pool = concurrent.futures.ProcessPoolExecutor(n_shards, mp_context=ctxm)
        try:
            futures = [pool.submit(run_shard, a) for a in args]
            results = [f.result(timeout=limit) for f in futures]
        except Exception as exc:  # BrokenProcessPool, TimeoutError
            for proc in list(getattr(pool, "_processes", {}).values()):
                proc.kill()
            pool.shutdown(wait=False, cancel_futures=True)
            print(f"worker pool failed: {type(exc).__name__}: {exc}")
            print(f"HARNESS-ERROR property={prop_id}")
            return 2
        pool.shutdown()

    harness = [r["harness"] for r in results if r["harness"]]
    failures = [r["failure"] for r in results if r["failure"]]
    if reg_failure:
        failures.insert(0, reg_failure)
    if known_failure:
        failures.insert(0, known_failure)

    nontrivial = set()
    labels = Counter()
    known_hits = Counter()
    samples = []
    subs = {}
    enums = {}
    for r in results:
        nontrivial.update(r["nontrivial"])
        labels.update(r["labels"])
        known_hits.update(r["known_hits"])
        for s in r["samples"]:
            if len(samples) < 8:
                samples.append(s)
        for name, info in r["subs"].items():
            agg = subs.setdefault(name, {"examples": 0, "wall_s": 0.0})
            agg["examples"] += info["examples"]
            agg["wall_s"] = round(max(agg["wall_s"], info["wall_s"]), 2)
        for name, info in r["enums"].items():
            agg = enums.setdefault(name, {"cases": 0, "wall_s": 0.0, "exhaustive": info["exhaustive"]})
            agg["cases"] += info["cases"]
            agg["wall_s"] = round(max(agg["wall_s"], info["wall_s"]), 2)
    evaluations = sum(r["evaluations"] for r in results) + n_reg
    skipped = sum(r["skipped_budget"] for r in results)

    evidence = {
        "property_id": prop_id, "tier": tier, "seed": seed, "level": "exploration",
        "coverage": {
            "evaluations": evaluations,
            "distinct_nontrivial": len(nontrivial),
            "rule": module.RULE,
            "samples": samples,
            "classes": dict(sorted(labels.items())),
            "sub_checks": subs,
            "enumerations": enums,
            "exhaustive": bool(enums) and all(e["exhaustive"] for e in enums.values()) and not subs,
            "regression_inputs_replayed": n_reg,
            "excluded_known": dict(known_hits),
            "inconclusive_cases_skipped_for_budget": skipped,
            "shards": n_shards,
        },
        "assumptions": list(getattr(module, "ASSUMPTIONS", [])),
        "wall_s": round(time.time() - t0, 2),
        "violations": len(failures),
    }
    os.makedirs(EVIDENCE_DIR, exist_ok=True)
    evidence_path = os.path.join(EVIDENCE_DIR, f"{prop_id}.json")
    with open(evidence_path, "w") as f:
        json.dump(evidence, f, indent=1, default=str)
    evidence_problem = None
    try:
        import jsonschema
        schema_path = os.path.join(VERIF_DIR, "tools", "EVIDENCE.schema.json")
        if os.path.exists(schema_path):
            jsonschema.validate(evidence, json.load(open(schema_path)))
    except ImportError:
        pass
    except Exception as exc:  # schema violation is a harness problem
        evidence_problem = str(exc)[:500]

    for line in known_lines:
        print(line)
    print(f"{prop_id} {tier}: {evaluations} evaluations, {len(nontrivial)} distinct non-trivial, "
          f"{len(failures)} violations, {evidence['wall_s']} s")
    if harness:
        for h in harness[:1]:
            print(f"sub-check {h['sub']}: harness error\n{h['detail']}")
        print(f"HARNESS-ERROR property={prop_id}")
        return 2
    if failures:
        f0 = failures[0]
        path = f0.get("path") or write_replay(prop_id, f0)
        print(f"clause {f0['clause']}: {f0['detail'][:1500]}")
        print(f"VIOLATION property={prop_id} replay={path}")
        return 1
    if evidence_problem:
        print(f"evidence does not validate: {evidence_problem}")
        print(f"HARNESS-ERROR property={prop_id}")
        return 2
    return 0
