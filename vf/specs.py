"""
Case specs -> xarray datasets.

A *spec* is a plain JSON-serialisable dict that fully determines a dataset: geometry, encoding
choices, variables.  Data values are not random: each element holds an injective integer code of
(variable number, index along every dimension), so that any mix-up of cells, axes or variables is
visible in the values.  Nothing in this module calls emsarray.

Spec layout::

    {"conv": "cf1d" | "cf2d" | "shoc_simple" | "arakawa" | "shoc_standard" | "ugrid",
     "geom": {... per convention, see the build_* functions ...},
     "extra": {"time": 2, "depth": 3, ...},           # sizes of the non-grid dimensions
     "vars": [{"name": "v0", "kind": "face" | ... | None, "dims": ["time", "@0", "@1"],
               "dtype": "f8", "fill": None | ["_FillValue", -999], "nan": [flat indexes],
               "attrs": {...}}],
     "time": None | {"name": "time", "dim": "time", "units": "...", "calendar": None|"...",
                     "values": [..]},
     "depths": [ {"name": "zc", "dim": "depth", "values": [...], "positive": "up"|"down"|None,
                  "bounds": None | [[lo, hi], ...], "extra_attrs": {...}} ],
     "mode": "raw" | "decoded" | "netcdf",
     "attrs": {...}}
"""
import itertools
import os
import tempfile

import numpy
import xarray

GRID_KINDS = {
    "cf1d": ["face"], "cf2d": ["face"], "shoc_simple": ["face"],
    "arakawa": ["face", "left", "back", "node"],
    "shoc_standard": ["face", "left", "back", "node"],
    "ugrid": ["face", "edge", "node"],
}

SHOC_DIMS = {
    "face": ("j_centre", "i_centre"), "left": ("j_left", "i_left"),
    "back": ("j_back", "i_back"), "node": ("j_grid", "i_grid"),
}
SHOC_COORDS = {
    "face": ("y_centre", "x_centre"), "left": ("y_left", "x_left"),
    "back": ("y_back", "x_back"), "node": ("y_grid", "x_grid"),
}
GENERIC_C_DIMS = {
    "face": ("fj", "fi"), "left": ("lj", "li"), "back": ("bj", "bi"), "node": ("nj", "ni"),
}
GENERIC_C_COORDS = {
    "face": ("lat_f", "lon_f"), "left": ("lat_l", "lon_l"),
    "back": ("lat_b", "lon_b"), "node": ("lat_n", "lon_n"),
}

NP_DTYPES = {"f8": numpy.float64, "f4": numpy.float32, "i4": numpy.int32, "i2": numpy.int16,
             "i8": numpy.int64, "b1": numpy.bool_, "M8": numpy.dtype("datetime64[ns]"),
             "u2": numpy.uint16, "u4": numpy.uint32}
# "M8": a time stamp per cell (e.g. the time of the last observation): code c is stored as
# 2000-01-01 + c seconds, a missing value as NaT
STAMP_EPOCH = numpy.datetime64("2000-01-01T00:00:00", "ns")


def stamp_of(code):
    return STAMP_EPOCH + numpy.timedelta64(int(code), "s")


def code_of_stamp(value):
    """Inverse of stamp_of for a numpy.datetime64 (None for NaT)."""
    value = numpy.datetime64(value, "ns")
    if numpy.isnat(value):
        return None
    return int((value - STAMP_EPOCH) // numpy.timedelta64(1, "s"))


# --------------------------------------------------------------------------------------------
# Shapes and dimension names (pure functions of the spec; the reference index model uses them)

def grid_shapes(spec):
    """{kind: tuple(shape)} for every grid kind the dataset defines."""
    conv, g = spec["conv"], spec["geom"]
    if conv == "cf1d":
        return {"face": (len(g["lat"]), len(g["lon"]))}
    if conv in ("cf2d", "shoc_simple"):
        nj, ni = len(g["nodes"]) - 1, len(g["nodes"][0]) - 1
        return {"face": (nj, ni)}
    if conv in ("arakawa", "shoc_standard"):
        nj, ni = len(g["nodes"]) - 1, len(g["nodes"][0]) - 1
        return {"face": (nj, ni), "left": (nj, ni + 1), "back": (nj + 1, ni),
                "node": (nj + 1, ni + 1)}
    if conv == "ugrid":
        shapes = {"face": (len(g["faces"]),), "node": (len(g["nodes"]),)}
        if ugrid_has_edge_dim(g):
            shapes["edge"] = (len(g["edges"]),)
        return shapes
    raise ValueError(conv)


def ugrid_has_edge_dim(g):
    enc = g["enc"]
    return bool(enc.get("edge_dim_attr") or "edge_node" in enc["supply"]
                or "edge_face" in enc["supply"])


def grid_dims(spec):
    """{kind: [dimension names]} in the convention's order."""
    conv, g = spec["conv"], spec["geom"]
    if conv in ("cf1d", "cf2d", "shoc_simple"):
        n = g["names"]
        return {"face": [n["y"], n["x"]]}
    if conv == "shoc_standard":
        return {k: list(v) for k, v in SHOC_DIMS.items()}
    if conv == "arakawa":
        return {k: list(v) for k, v in GENERIC_C_DIMS.items()}
    if conv == "ugrid":
        d = {"face": [g["enc"]["dims"]["face"]], "node": [g["enc"]["dims"]["node"]]}
        if ugrid_has_edge_dim(g):
            d["edge"] = [g["enc"]["dims"]["edge"]]
        return d
    raise ValueError(conv)


def full_var_dim_names(spec, var):
    """Dimension names of a variable as it is stored (before any spec["pick"] is applied)."""
    gd = grid_dims(spec)
    out = []
    for d in var["dims"]:
        if d.startswith("@"):
            out.append(gd[var["kind"]][int(d[1:])])
        else:
            out.append(d)
    return out


def var_dim_names(spec, var):
    """Dimension names of a variable in the dataset a check sees: spec["pick"] = {dim: index}
    says that one index of a non-grid dimension was picked beforehand (ds.isel(dim=index)),
    which removes that dimension from every variable."""
    picked = spec.get("pick") or {}
    return [d for d in full_var_dim_names(spec, var) if d not in picked]


def dim_sizes(spec):
    sizes = dict(spec.get("extra", {}))
    gd, gs = grid_dims(spec), grid_shapes(spec)
    for kind, dims in gd.items():
        for d, n in zip(dims, gs[kind]):
            sizes[d] = n
    return sizes


# --------------------------------------------------------------------------------------------
# Data codes

def var_number(spec, var):
    for n, v in enumerate(spec["vars"]):
        if v["name"] == var["name"]:
            return n
    raise KeyError(var["name"])


def canonical_dims(spec, var):
    return sorted(full_var_dim_names(spec, var))


def flat_canonical(spec, var, idx_by_dim):
    sizes = dim_sizes(spec)
    picked = spec.get("pick") or {}
    flat = 0
    for d in canonical_dims(spec, var):
        flat = flat * sizes[d] + (picked[d] if d in picked else idx_by_dim[d])
    return flat


def value_of(spec, var, idx_by_dim):
    """The value stored in ``var`` at the given {dimension name: index}; None means missing."""
    flat = flat_canonical(spec, var, idx_by_dim)
    if flat in _nan_set(var):
        return None
    if var.get("floor") is not None and not is_wet(spec, var, idx_by_dim):
        return None
    return 1000 * (var_number(spec, var) + 1) + flat + spec.get("code_offset", 0)


def depth_coordinate_spec(spec, name):
    for dc in spec.get("depths") or []:
        if dc["name"] == name:
            return dc
    raise KeyError(name)


def effective_positive(dc):
    """The sign convention of a depth coordinate: its positive attribute, or - without one - the
    documented guess (positive down when more than half the values are above zero)."""
    if dc.get("positive") is not None:
        return dc["positive"]
    values = dc["values"]
    return "down" if sum(1 for v in values if v > 0) > len(values) / 2 else "up"


def levels_shallow_to_deep(dc):
    """Level indexes of a depth coordinate ordered by physical depth below the surface."""
    sign = 1 if effective_positive(dc) == "down" else -1
    return sorted(range(len(dc["values"])), key=lambda q: sign * dc["values"][q])


def is_wet(spec, var, idx_by_dim):
    """Static sea floor: in every water column the ``wet`` shallowest levels hold data."""
    dc = depth_coordinate_spec(spec, var["floor"])
    order = levels_shallow_to_deep(dc)
    rank = order.index(idx_by_dim[dc["dim"]])
    kind = var["kind"]
    gd = grid_dims(spec)[kind]
    shape = grid_shapes(spec)[kind]
    lin = 0
    for d, n in zip(gd, shape):
        lin = lin * n + idx_by_dim[d]
    return rank < spec["floors"][var["floor"]][kind][lin]


_nan_cache = {}


def _nan_set(var):
    key = id(var)
    hit = _nan_cache.get(key)
    if hit is not None and hit[0] is var:
        return hit[1]
    s = frozenset(var.get("nan") or ())
    if len(_nan_cache) > 256:
        _nan_cache.clear()
    _nan_cache[key] = (var, s)
    return s


def raw_array(spec, var):
    """Build the stored array element by element (no reshape, no ravel)."""
    names = full_var_dim_names(spec, var)
    sizes = dim_sizes(spec)
    shape = tuple(sizes[d] for d in names)
    dtype = NP_DTYPES[var["dtype"]]
    spec = dict(spec, pick=None)      # (the stored array has every dimension)
    fill = var.get("fill")
    arr = numpy.zeros(shape, dtype=dtype)
    is_stamp = var["dtype"] == "M8"
    for idx in itertools.product(*(range(n) for n in shape)):
        val = value_of(spec, var, dict(zip(names, idx)))
        if is_stamp:
            arr[idx] = numpy.datetime64("NaT") if val is None else stamp_of(val)
            continue
        if val is None:
            if fill is not None:
                arr[idx] = fill[1]
            elif numpy.issubdtype(dtype, numpy.floating):
                arr[idx] = numpy.nan
            else:
                raise ValueError(f"variable {var['name']} cannot hold a missing value")
        else:
            arr[idx] = val
    return arr


# --------------------------------------------------------------------------------------------
# Geometry builders.  Each returns (data_vars, coords, attrs) as dicts of xarray.Variable-like
# tuples (dims, data, attrs).

def _f(values):
    """Nested lists with None -> float array with NaN."""
    return numpy.array(
        [[numpy.nan if v is None else v for v in row] if isinstance(row, (list, tuple)) else
         (numpy.nan if row is None else row) for row in values], dtype=numpy.float64)


LAT_SPELLINGS = ["degrees_north", "degree_north", "degree_N", "degrees_N", "degreeN", "degreesN"]
LON_SPELLINGS = ["degrees_east", "degree_east", "degree_E", "degrees_E", "degreeE", "degreesE"]


def _detect_attrs(which, detect):
    if detect.startswith("spelling:"):
        # "spelling:<a>:<b>": the a-th CF spelling of the latitude units, the b-th of longitude
        _, a, b = detect.split(":")
        return {"units": LAT_SPELLINGS[int(a)] if which == "lat" else LON_SPELLINGS[int(b)]}
    if which == "lat":
        return {"units": {"units": "degrees_north"}, "standard_name": {"standard_name": "latitude"},
                "axis": {"axis": "Y"}, "units_alt": {"units": "degree_N"}}[detect]
    return {"units": {"units": "degrees_east"}, "standard_name": {"standard_name": "longitude"},
            "axis": {"axis": "X"}, "units_alt": {"units": "degreesE"}}[detect]


def _exact_cast(values, dtype):
    """The axis values in the requested storage type when that type holds them exactly
    (whole degrees as integers, short dyadic fractions as float32), float64 otherwise."""
    full = numpy.array(values, dtype=numpy.float64)
    cast = full.astype(NP_DTYPES[dtype])
    if numpy.array_equal(cast.astype(numpy.float64), full):
        return cast
    return full


def _signed_zero(bounds, g):
    """With g["negative_zero"]: a bound that is exactly zero is stored as -0.0 in the second
    column of a bounds table (so two neighbouring cells store their shared edge as 0.0 and
    -0.0, which are equal numbers with different bytes)."""
    if g.get("negative_zero"):
        column = bounds[..., 1]
        column[column == 0] = -0.0
    return bounds


def build_cf1d(spec):
    g = spec["geom"]
    n = g["names"]
    data_vars, coords = {}, {}
    lat_attrs = dict(_detect_attrs("lat", g["detect"]))
    lon_attrs = dict(_detect_attrs("lon", g["detect"]))
    bounds_target = coords if g.get("bounds_as") == "coord" else data_vars
    if g.get("lat_bounds") is not None:
        lat_attrs["bounds"] = n["lat"] + "_bnds"
        bounds_target[n["lat"] + "_bnds"] = ([n["y"], "nv"], _signed_zero(_f(g["lat_bounds"]), g), {})
    if g.get("lon_bounds") is not None:
        lon_attrs["bounds"] = n["lon"] + "_bnds"
        bounds_target[n["lon"] + "_bnds"] = ([n["x"], "nv"], _signed_zero(_f(g["lon_bounds"]), g), {})
    lat_dtype, lon_dtype = g.get("coord_dtypes") or ("f8", "f8")
    entries = [
        (coords if (g["coords_as"] == "coord" or n["lat"] == n["y"]) else data_vars,
         n["lat"], ([n["y"]], _exact_cast(g["lat"], lat_dtype), lat_attrs)),
        (coords if (g["coords_as"] == "coord" or n["lon"] == n["x"]) else data_vars,
         n["lon"], ([n["x"]], _exact_cast(g["lon"], lon_dtype), lon_attrs)),
    ]
    if g.get("lon_first"):
        entries.reverse()       # the order in which a file lists its variables means nothing
    for target, name, value in entries:
        target[name] = value
    return data_vars, coords, {"Conventions": "CF-1.8"}


def cell_corner_nodes(j, i):
    """Lattice nodes surrounding cell (j, i) in the order every convention here uses."""
    return [(j, i), (j, i + 1), (j + 1, i + 1), (j + 1, i)]


def lattice_centres(nodes, holes=None):
    nj, ni = len(nodes) - 1, len(nodes[0]) - 1
    cx = numpy.full((nj, ni), numpy.nan)
    cy = numpy.full((nj, ni), numpy.nan)
    for j in range(nj):
        for i in range(ni):
            if holes is not None and holes[j][i]:
                continue
            pts = [nodes[a][b] for a, b in cell_corner_nodes(j, i)]
            if any(p is None for p in pts):
                continue
            cx[j, i] = (pts[0][0] + pts[1][0] + pts[2][0] + pts[3][0]) / 4
            cy[j, i] = (pts[0][1] + pts[1][1] + pts[2][1] + pts[3][1]) / 4
    return cx, cy


def build_cf2d(spec):
    g = spec["geom"]
    n = g["names"]
    nodes, holes = g["nodes"], g["holes"]
    nj, ni = len(nodes) - 1, len(nodes[0]) - 1
    cx, cy = lattice_centres(nodes, holes)
    data_vars, coords = {}, {}
    attrs = {"Conventions": "CF-1.8"}
    lat_attrs = dict(_detect_attrs("lat", g["detect"]))
    lon_attrs = dict(_detect_attrs("lon", g["detect"]))
    if spec["conv"] == "shoc_simple":
        lat_attrs["standard_name"] = "latitude"
        lon_attrs["standard_name"] = "longitude"
        attrs["ems_version"] = "v1.2.3"
    dims = [n["y"], n["x"]]
    if g["bounds"]:
        bx = numpy.full((nj, ni, 4), numpy.nan)
        by = numpy.full((nj, ni, 4), numpy.nan)
        for j in range(nj):
            for i in range(ni):
                if holes[j][i]:
                    continue
                corners = cell_corner_nodes(j, i)
                if [j, i] in (g.get("twisted") or []):
                    # stored corners out of order: a self-intersecting (bow tie) cell
                    corners = [corners[0], corners[2], corners[1], corners[3]]
                for c, (a, b) in enumerate(corners):
                    bx[j, i, c] = nodes[a][b][0]
                    by[j, i, c] = nodes[a][b][1]
                if g.get("negative_zero") and (j + i) % 2 == 0:
                    # every other cell stores its zeros as -0.0: shared corners then differ in
                    # their bytes between neighbours, not in their value
                    bx[j, i][bx[j, i] == 0] = -0.0
                    by[j, i][by[j, i] == 0] = -0.0
        lat_attrs["bounds"] = n["lat"] + "_bnds"
        lon_attrs["bounds"] = n["lon"] + "_bnds"
        bounds_target = coords if g.get("bounds_as") == "coord" else data_vars
        bounds_target[n["lat"] + "_bnds"] = (dims + ["nv"], by, {})
        bounds_target[n["lon"] + "_bnds"] = (dims + ["nv"], bx, {})
    elif g.get("bad_bounds"):
        # bounds variables that do not have the (y, x, 4) layout: emsarray must refuse them
        # (ConventionViolationWarning) and synthesise the cells as if there were none
        bx = numpy.full((nj, ni, 4), numpy.nan)
        by = numpy.full((nj, ni, 4), numpy.nan)
        for j in range(nj):
            for i in range(ni):
                if holes[j][i]:
                    continue
                for c, (a, b) in enumerate(cell_corner_nodes(j, i)):
                    bx[j, i, c] = nodes[a][b][0]
                    by[j, i, c] = nodes[a][b][1]
        layout = g["bad_bounds"]
        if layout == "xy4":
            bdims, perm = [n["x"], n["y"], "nv"], (1, 0, 2)
        elif layout == "4yx":
            bdims, perm = ["nv", n["y"], n["x"]], (2, 0, 1)
        elif layout == "yx3":
            bdims, perm = [n["y"], n["x"], "nv3"], (0, 1, 2)
            bx, by = bx[:, :, :3], by[:, :, :3]
        else:
            raise ValueError(layout)
        lat_attrs["bounds"] = n["lat"] + "_bnds"
        lon_attrs["bounds"] = n["lon"] + "_bnds"
        bounds_target = coords if g.get("bounds_as") == "coord" else data_vars
        bounds_target[n["lat"] + "_bnds"] = (bdims, numpy.ascontiguousarray(by.transpose(perm)), {})
        bounds_target[n["lon"] + "_bnds"] = (bdims, numpy.ascontiguousarray(bx.transpose(perm)), {})
    target = coords if g["coords_as"] == "coord" else data_vars
    if g.get("decoy_first"):
        # a static (j, i) variable without standard_name, placed before the coordinates
        data_vars["decoy"] = (dims, numpy.zeros((nj, ni)), {"long_name": "decoy"})
    if g.get("lon_first"):
        target[n["lon"]] = (dims, cx, lon_attrs)
        target[n["lat"]] = (dims, cy, lat_attrs)
    else:
        target[n["lat"]] = (dims, cy, lat_attrs)
        target[n["lon"]] = (dims, cx, lon_attrs)
    return data_vars, coords, attrs


def c_grid_coordinates(nodes):
    """Face / left / back / node coordinate arrays of an Arakawa C grid from its node lattice."""
    nj, ni = len(nodes) - 1, len(nodes[0]) - 1

    def mean(points):
        if any(p is None for p in points):
            return (numpy.nan, numpy.nan)
        k = len(points)
        return (sum(p[0] for p in points) / k, sum(p[1] for p in points) / k)

    out = {}
    node = numpy.full((nj + 1, ni + 1, 2), numpy.nan)
    for j in range(nj + 1):
        for i in range(ni + 1):
            if nodes[j][i] is not None:
                node[j, i] = nodes[j][i]
    out["node"] = node
    face = numpy.full((nj, ni, 2), numpy.nan)
    for j in range(nj):
        for i in range(ni):
            face[j, i] = mean([nodes[a][b] for a, b in cell_corner_nodes(j, i)])
    out["face"] = face
    left = numpy.full((nj, ni + 1, 2), numpy.nan)
    for j in range(nj):
        for i in range(ni + 1):
            left[j, i] = mean([nodes[j][i], nodes[j + 1][i]])
    out["left"] = left
    back = numpy.full((nj + 1, ni, 2), numpy.nan)
    for j in range(nj + 1):
        for i in range(ni):
            back[j, i] = mean([nodes[j][i], nodes[j][i + 1]])
    out["back"] = back
    return out


def build_arakawa(spec):
    g = spec["geom"]
    shoc = spec["conv"] == "shoc_standard"
    dims = SHOC_DIMS if shoc else GENERIC_C_DIMS
    names = SHOC_COORDS if shoc else GENERIC_C_COORDS
    arrays = c_grid_coordinates(g["nodes"])
    data_vars, coords = {}, {}
    target = coords if g["coords_as"] == "coord" else data_vars
    for kind in ("face", "left", "back", "node"):
        lat_name, lon_name = names[kind]
        if kind in (g.get("lon_transposed") or ()):
            # the longitude of this grid stored (i, j) while its latitude is (j, i): the grid's
            # dimension order is the latitude's, the longitude is the same field transposed
            target[lon_name] = (list(dims[kind])[::-1], arrays[kind][..., 0].T.copy(),
                                {"units": "degrees_east", "long_name": f"Longitude at {kind}"})
            target[lat_name] = (list(dims[kind]), arrays[kind][..., 1].copy(),
                                {"units": "degrees_north", "long_name": f"Latitude at {kind}"})
            continue
        target[lon_name] = (list(dims[kind]), arrays[kind][..., 0].copy(),
                            {"units": "degrees_east", "long_name": f"Longitude at {kind}"})
        target[lat_name] = (list(dims[kind]), arrays[kind][..., 1].copy(),
                            {"units": "degrees_north", "long_name": f"Latitude at {kind}"})
    attrs = {"Conventions": "CMR/Timeseries/SHOC"} if shoc else {"title": "generic C grid"}
    return data_vars, coords, attrs


def arakawa_coordinate_names(spec=None):
    """The coordinate_names mapping for the generic Arakawa C class; a spec may ask for its keys
    in another order (spec["coord_names_order"]) - it is a mapping, the order means nothing."""
    order = (spec or {}).get("coord_names_order") or list(GENERIC_C_COORDS)
    return {k: tuple(GENERIC_C_COORDS[k]) for k in order}


# ---- UGRID

def mesh_edges(faces):
    """Reference edge set: distinct unordered consecutive node pairs, in first-seen order."""
    seen, out = set(), []
    for face in faces:
        n = len(face)
        for c in range(n):
            a, b = face[c], face[(c + 1) % n]
            key = (min(a, b), max(a, b))
            if key not in seen:
                seen.add(key)
                out.append([a, b])
    return out


def mesh_tables(faces, edges):
    """Reference connectivity from an abstract face list and a given edge numbering."""
    edge_no = {}
    for e, (a, b) in enumerate(edges):
        edge_no[(min(a, b), max(a, b))] = e
    face_edge = []
    edge_face = [[] for _ in edges]
    for f, face in enumerate(faces):
        n = len(face)
        row = []
        for c in range(n):
            a, b = face[c], face[(c + 1) % n]
            e = edge_no[(min(a, b), max(a, b))]
            row.append(e)
            edge_face[e].append(f)
        face_edge.append(row)
    face_face = []
    for f, face in enumerate(faces):
        row = []
        for e in face_edge[f]:
            others = [o for o in edge_face[e] if o != f]
            row.append(others[0] if others else None)
        face_face.append(row)
    return {"face_edge": face_edge, "edge_face": edge_face, "face_face": face_face}


def supplied_edge_face(g):
    """The edge-face table as the file holds it: rows [face, face], and for boundary edges
    [face, None] or - with enc["edge_face_fill_first"] - alternately [None, face]."""
    rows = mesh_tables(g["faces"], g["edges"])["edge_face"]
    out = []
    flip = bool(g["enc"].get("edge_face_fill_first"))
    for row in rows:
        if len(row) == 1:
            out.append([None, row[0]] if flip else [row[0], None])
            flip = (not flip) if g["enc"].get("edge_face_fill_first") else False
        else:
            out.append(list(row))
    return out


def _index_table(rows, width, start_index, fill_style, np_dtype, fill_value):
    """Encode a ragged table of 0-based indexes (None = missing) the way the spec asks."""
    n = len(rows)
    needs_fill = any(len(r) < width or any(v is None for v in r) for r in rows)
    base = start_index or 0
    if fill_style == "nan" and needs_fill:
        arr = numpy.full((n, width), numpy.nan, dtype=numpy.float64)
        for r, row in enumerate(rows):
            for c, v in enumerate(row):
                if v is not None:
                    arr[r, c] = v + base
        return arr, {}
    arr = numpy.full((n, width), fill_value, dtype=np_dtype)
    for r, row in enumerate(rows):
        for c, v in enumerate(row):
            if v is not None:
                arr[r, c] = v + base
    attrs = {}
    if needs_fill or fill_style == "int_always":
        attrs["_FillValue"] = np_dtype(fill_value)
    return arr, attrs


def build_ugrid(spec):
    g = spec["geom"]
    enc = g["enc"]
    nodes, faces, edges = g["nodes"], g["faces"], g["edges"]
    d = enc["dims"]
    names = enc["names"]
    start_index = enc["start_index"]
    np_dtype = NP_DTYPES[enc.get("dtype", "i4")]
    fill_value = enc.get("fill_value")
    default_fill = 999999 if np_dtype not in (numpy.int16, numpy.uint16) else 32767
    if fill_value is None or fill_value == "one_past_edges":
        fill_value = default_fill
    if numpy.dtype(np_dtype).kind == "u" and (fill_value < 0 or fill_value > numpy.iinfo(np_dtype).max):
        fill_value = int(numpy.iinfo(np_dtype).max)      # what netCDF uses for unsigned types
    fill_style = enc["fill"]
    supply = enc["supply"]
    transposed = enc.get("transposed", [])
    max_nodes = max(len(f) for f in faces) + enc.get("pad_columns", 0)
    tables = mesh_tables(faces, edges)

    data_vars, coords = {}, {}
    mesh_attrs = {
        "cf_role": "mesh_topology", "topology_dimension": 2,
        "node_coordinates": f"{names['node_x']} {names['node_y']}",
        "face_node_connectivity": names["face_node"],
    }

    def conn(name_key, rows, width, row_dim, col_dim, cf_role):
        table_fill = fill_value
        if enc.get("fill_value") == "one_past_edges":
            # the first number that is NOT an edge index (edge count + index base) as the fill
            # value of the face-edge table - a natural choice; the other tables keep the default
            table_fill = (len(edges) + (start_index or 0)) if name_key == "face_edge" else default_fill
        arr, attrs = _index_table(rows, width, start_index, fill_style, np_dtype, table_fill)
        attrs = dict(attrs)
        attrs["cf_role"] = cf_role
        if start_index is not None:
            attrs["start_index"] = enc.get("start_index_attr", start_index)
        dims = [row_dim, col_dim]
        if name_key in transposed:
            arr = arr.T.copy()
            dims = [col_dim, row_dim]
        data_vars[names[name_key]] = (dims, arr, attrs)
        mesh_attrs[cf_role] = names[name_key]

    conn("face_node", faces, max_nodes, d["face"], d["max_node"], "face_node_connectivity")
    if "edge_node" in supply:
        conn("edge_node", edges, 2, d["edge"], d["two"], "edge_node_connectivity")
    if "face_edge" in supply:
        conn("face_edge", tables["face_edge"], max_nodes, d["face"], d["max_node"],
             "face_edge_connectivity")
    if "edge_face" in supply:
        conn("edge_face", supplied_edge_face(g), 2, d["edge"], d["two"],
             "edge_face_connectivity")
    if "face_face" in supply:
        conn("face_face", tables["face_face"], max_nodes, d["face"], d["max_node"],
             "face_face_connectivity")
    for key in enc.get("dangling") or ():
        # the mesh variable names a table that is not in the dataset (dropped by some earlier
        # processing step): it is then simply not supplied
        if key not in supply:
            mesh_attrs[key + "_connectivity"] = names[key]
    if enc.get("face_dim_attr") or "face_node" in transposed:
        mesh_attrs["face_dimension"] = d["face"]
    if enc.get("edge_dim_attr") or any(k in transposed for k in ("edge_node", "edge_face")):
        if ugrid_has_edge_dim(g) or enc.get("edge_dim_attr"):
            mesh_attrs["edge_dimension"] = d["edge"]

    coord_target = coords if enc["coords_as"] == "coord" else data_vars
    coord_target[names["node_x"]] = ([d["node"]], numpy.array(
        [numpy.nan if p is None else p[0] for p in nodes], dtype=numpy.float64),
        {"standard_name": "longitude", "units": "degrees_east"})
    coord_target[names["node_y"]] = ([d["node"]], numpy.array(
        [numpy.nan if p is None else p[1] for p in nodes], dtype=numpy.float64),
        {"standard_name": "latitude", "units": "degrees_north"})
    if enc.get("face_coords"):
        fx, fy = [], []
        for face in faces:
            pts = [nodes[k] for k in face]
            if any(p is None for p in pts):
                fx.append(numpy.nan)
                fy.append(numpy.nan)
            else:
                fx.append(sum(p[0] for p in pts) / len(pts))
                fy.append(sum(p[1] for p in pts) / len(pts))
        coord_target[names["face_x"]] = ([d["face"]], numpy.array(fx), {
            "standard_name": "longitude", "units": "degrees_east"})
        coord_target[names["face_y"]] = ([d["face"]], numpy.array(fy), {
            "standard_name": "latitude", "units": "degrees_north"})
        mesh_attrs["face_coordinates"] = f"{names['face_x']} {names['face_y']}"
    if enc.get("edge_coords") and ugrid_has_edge_dim(g):
        ex, ey = [], []
        for a, b in edges:
            pa, pb = nodes[a], nodes[b]
            if pa is None or pb is None:
                ex.append(numpy.nan)
                ey.append(numpy.nan)
            else:
                ex.append((pa[0] + pb[0]) / 2)
                ey.append((pa[1] + pb[1]) / 2)
        coord_target[names["edge_x"]] = ([d["edge"]], numpy.array(ex), {
            "standard_name": "longitude", "units": "degrees_east"})
        coord_target[names["edge_y"]] = ([d["edge"]], numpy.array(ey), {
            "standard_name": "latitude", "units": "degrees_north"})
        mesh_attrs["edge_coordinates"] = f"{names['edge_x']} {names['edge_y']}"

    mesh = {names["mesh"]: ([], numpy.int32(0), mesh_attrs)}
    mesh.update(data_vars)
    return mesh, coords, {"Conventions": enc.get("conventions", "UGRID-1.0")}


GEOM_BUILDERS = {
    "cf1d": build_cf1d, "cf2d": build_cf2d, "shoc_simple": build_cf2d,
    "arakawa": build_arakawa, "shoc_standard": build_arakawa, "ugrid": build_ugrid,
}


# --------------------------------------------------------------------------------------------

def build_raw(spec):
    """The dataset as it would sit on disk (fill values as attributes, numeric time)."""
    data_vars, coords, attrs = GEOM_BUILDERS[spec["conv"]](spec)
    data_vars = dict(data_vars)
    coords = dict(coords)
    attrs = dict(attrs)
    attrs.update(spec.get("attrs") or {})
    if spec.get("coord_dtype") == "f4":
        # single precision geometry (very common in model output), wherever float32 holds the
        # values exactly, so that the reference geometry stays exact
        for target in (data_vars, coords):
            for key, (dims, arr, var_attrs) in list(target.items()):
                arr = numpy.asarray(arr)
                if arr.dtype == numpy.float64 and "cf_role" not in var_attrs:
                    cast = arr.astype(numpy.float32)
                    if numpy.array_equal(cast.astype(numpy.float64), arr, equal_nan=True):
                        target[key] = (dims, cast, var_attrs)

    if spec.get("decoy_latlon") and spec["conv"] in ("cf1d", "cf2d"):
        # a second latitude / longitude pair on OTHER dimensions (the corner grid of a model,
        # say), listed before everything else.  Only meaningful when the convention is bound
        # with explicit coordinate names: those names decide, not the order of the variables.
        g = spec["geom"]
        if spec["conv"] == "cf1d":
            ny, nx = len(g["lat"]) + 1, len(g["lon"]) + 1
            decoys = {"lat_corner": (["yc"], numpy.arange(ny, dtype=numpy.float64) - 70.0, {"units": "degrees_north"}),
                      "lon_corner": (["xc"], numpy.arange(nx, dtype=numpy.float64) + 20.0, {"units": "degrees_east"})}
        else:
            ny, nx = len(g["nodes"]), len(g["nodes"][0])
            jj, ii = numpy.meshgrid(numpy.arange(ny, dtype=numpy.float64), numpy.arange(nx, dtype=numpy.float64), indexing="ij")
            decoys = {"lat_corner": (["yc", "xc"], jj - 70.0, {"units": "degrees_north"}),
                      "lon_corner": (["yc", "xc"], ii + 20.0, {"units": "degrees_east"})}
        decoys.update(data_vars)
        data_vars = decoys
    if spec.get("coord_layout") == "F":
        # geometry arrays held column-major in memory (what transposing, meshgrid(indexing="ij").T
        # or asfortranarray leave behind): same values, same dims, other strides
        for target in (data_vars, coords):
            for key, (dims, arr, var_attrs) in list(target.items()):
                arr = numpy.asarray(arr)
                if arr.ndim >= 2:
                    target[key] = (dims, numpy.asfortranarray(arr), var_attrs)

    t = spec.get("time")
    if t is not None:
        tattrs = {"units": t["units"], "long_name": "Time"}
        if t.get("calendar"):
            tattrs["calendar"] = t["calendar"]
        tattrs.update(t.get("extra_attrs") or {})
        dtype = numpy.float64 if t.get("dtype", "f8") == "f8" else numpy.int32
        if t.get("bounds"):
            # CF time bounds: a (time, 2) variable named by the bounds attribute; it carries no
            # units of its own (it inherits the coordinate's)
            tattrs["bounds"] = t["name"] + "_bnds"
            pairs = [[v, v + 1] for v in t["values"]]
            data_vars[t["name"] + "_bnds"] = (
                [t["dim"], "tnv"], numpy.array(pairs, dtype=dtype).reshape(len(pairs), 2), {})
        target = coords if (t.get("as", "coord") == "coord" or t["name"] == t["dim"]) else data_vars
        target[t["name"]] = ([t["dim"]], numpy.array(t["values"], dtype=dtype), tattrs)

    for dc in spec.get("depths") or []:
        dattrs = {"long_name": "depth", "units": "m"}
        if dc.get("positive") is not None:
            dattrs["positive"] = dc["positive"]
        dattrs.update(dc.get("extra_attrs") or {})
        if dc.get("bounds") is not None:
            bname = dc["name"] + "_bnds"
            dattrs["bounds"] = bname
            btarget = coords if dc.get("bounds_as") == "coord" else data_vars
            btarget[bname] = ([dc["dim"], "zbnd"], numpy.array(dc["bounds"], dtype=numpy.float64), {})
        target = coords if (dc.get("as", "coord") == "coord" or dc["name"] == dc["dim"]) else data_vars
        target[dc["name"]] = ([dc["dim"]], numpy.array(dc["values"], dtype=numpy.float64), dattrs)

    for var in spec.get("vars") or []:
        vattrs = {"long_name": f"variable {var['name']}"}
        vattrs.update(var.get("attrs") or {})
        if var.get("fill") is not None:
            vattrs[var["fill"][0]] = NP_DTYPES[var["dtype"]](var["fill"][1])
        values = raw_array(spec, var)
        if spec.get("data_layout") == "F" and values.ndim >= 2:
            values = numpy.asfortranarray(values)
        data_vars[var["name"]] = (full_var_dim_names(spec, var), values, vattrs)

    for dim, labels in (spec.get("dim_coords") or {}).items():
        # a dimension coordinate on a grid dimension: labels that are NOT the positions
        if dim not in coords and dim not in data_vars:
            coords[dim] = ([dim], numpy.array(labels, dtype=numpy.int64), {})

    for name, dim in (spec.get("aux_coords") or {}).items():
        # an auxiliary coordinate without any attributes on an existing dimension (layer
        # numbers on the depth dimension, say)
        coords[name] = ([dim], numpy.arange(1, dim_sizes(spec)[dim] + 1, dtype=numpy.int64), {})
    for dim, size in (spec.get("coord_only_dims") or {}).items():
        # a dimension that only a coordinate variable uses (a list of station labels, say)
        if dim not in dim_sizes(spec):
            coords[dim + "_label"] = ([dim], numpy.arange(100, 100 + size, dtype=numpy.int64), {})

    order = spec.get("var_order")
    if order:
        data_vars = {k: data_vars[k] for k in order if k in data_vars} | data_vars
    ds = xarray.Dataset(
        data_vars={k: xarray.Variable(*v) for k, v in data_vars.items()},
        coords={k: xarray.Variable(*v) for k, v in coords.items()},
        attrs=attrs)
    return ds


def scratch_dir():
    base = "/dev/shm" if os.path.isdir("/dev/shm") and os.access("/dev/shm", os.W_OK) else None
    return tempfile.TemporaryDirectory(prefix="vf-", dir=base)


_OPEN_FILES = []


def release_files():
    while _OPEN_FILES:
        ds, tmp = _OPEN_FILES.pop()
        try:
            ds.close()
        finally:
            tmp.cleanup()


def build(spec):
    """Build the dataset for a spec in the mode it asks for."""
    ds = _build(spec)
    if spec.get("pick"):
        ds = ds.isel({d: k for d, k in spec["pick"].items() if d in ds.dims})
    return ds


def _build(spec):
    raw = build_raw(spec)
    mode = spec.get("mode", "raw")
    if mode == "raw":
        return raw
    if mode == "decoded":
        return xarray.decode_cf(raw)
    if mode == "dask":
        # CF-decoded and split into dask chunks (what open_mfdataset / chunks= gives a user)
        size = spec.get("chunks", 2)
        decoded = xarray.decode_cf(raw)
        return decoded.chunk({d: size for d in decoded.dims})
    if mode == "file":
        # written to a netCDF file and opened lazily, as a user opens a model output file:
        # the arrays stay on disk until something asks for them.  The file lives until
        # release_files() is called (the runner does that after every check).
        tmp = scratch_dir()
        path = os.path.join(tmp.name, "case.nc")
        raw.to_netcdf(path)
        ds = xarray.open_dataset(path)
        _OPEN_FILES.append((ds, tmp))
        return ds
    if mode == "netcdf":
        with scratch_dir() as tmp:
            path = os.path.join(tmp, "case.nc")
            raw.to_netcdf(path)
            with xarray.open_dataset(path) as ds:
                ds = ds.load()
        return ds
    raise ValueError(mode)


def construct_convention(spec, dataset):
    """A new, unbound convention object of the expected class for a dataset built from spec."""
    from vf.common import import_emsarray
    import_emsarray()
    import emsarray.conventions as conventions
    conv_name = spec["conv"]
    if conv_name == "arakawa":
        return conventions.ArakawaC(dataset, coordinate_names=arakawa_coordinate_names(spec))
    cls = getattr(conventions, EXPECTED_CLASS[conv_name])
    if conv_name in ("cf1d", "cf2d"):
        names = spec["geom"]["names"]
        return cls(dataset, latitude=names["lat"], longitude=names["lon"])
    return cls(dataset)


def bind_convention(spec, dataset):
    """Return the convention object for a dataset built from ``spec``: bound through the accessor
    (auto-detection), or constructed explicitly and bound (spec["bind"] == "explicit"; always for
    the generic Arakawa C class, which cannot be detected).  ``spec["warmup"]`` lists cached
    properties to read, in that order, before the caller starts looking: reading them must not
    change anything."""
    from vf.common import import_emsarray
    import_emsarray()
    import warnings
    import emsarray.conventions as conventions
    conv_name = spec["conv"]
    if conv_name == "arakawa":
        conv = conventions.ArakawaC(dataset, coordinate_names=arakawa_coordinate_names(spec))
        conv.bind()
    elif spec.get("bind") == "explicit":
        cls = getattr(conventions, EXPECTED_CLASS[conv_name])
        if conv_name in ("cf1d", "cf2d"):
            names = spec["geom"]["names"]
            conv = cls(dataset, latitude=names["lat"], longitude=names["lon"])
        else:
            conv = cls(dataset)
        conv.bind()
    else:
        conv = dataset.ems
    for name in spec.get("warmup") or ():
        # (warning filters are the caller's business: C06 records the warnings raised here)
        try:
            getattr(conv, name)
        except Exception:
            pass
    return conv


EXPECTED_CLASS = {
    "cf1d": "CFGrid1D", "cf2d": "CFGrid2D", "shoc_simple": "ShocSimple",
    "arakawa": "ArakawaC", "shoc_standard": "ShocStandard", "ugrid": "UGrid",
}
