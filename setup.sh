#!/bin/sh
# Offline set-up of the verification framework.  Idempotent.
set -e
cd "$(dirname "$0")"
/venv/bin/python -c "import hypothesis" 2>/dev/null || \
    /venv/bin/pip install --no-index --find-links /opt/veriftools/wheels hypothesis
/venv/bin/python -c "import sys; sys.path.append('.deps'); import jsonschema" 2>/dev/null || \
    /venv/bin/pip install --no-index --find-links /opt/veriftools/wheels --target .deps jsonschema >/dev/null 2>&1 || true
/venv/bin/python -c "import sys; sys.path.append('.deps'); import atheris" 2>/dev/null || \
    /venv/bin/pip install --no-index --find-links /opt/veriftools/wheels --target .deps atheris >/dev/null 2>&1 || true
/venv/bin/python -c "import sys; sys.path.insert(0, '.'); from vf.common import import_emsarray; import_emsarray(); print('setup ok')"
