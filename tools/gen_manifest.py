#!/usr/bin/env python3
"""Generate /verif/MANIFEST.json from the table below (kept in one place so it stays valid)."""
import json
import os

HERE = os.path.dirname(os.path.dirname(os.path.abspath(__file__)))

ALL = [f"C{n:02d}" for n in range(1, 21)]

CHECKS = {
    "C01": {
        "technique": "property-based testing: exhaustive index sweep inside generated datasets vs a divmod reference model; finite enumeration of all shapes",
        "text": "Hypothesis generates datasets of every convention (non-square, 1xN, Nx1, holes, meshes with and without an edge dimension); inside each, every linear index in [-3, N+3) and every native index in the box [-1..n_d] of every grid kind is converted both ways and compared with an independent row-major model, and out-of-range indexes must raise. All structured shapes up to 5x5 and strip meshes up to 12 faces are enumerated completely. Exploration, not proof: shapes are bounded (<= 6 per axis). Sub-check large_grids: CF 1-D grids of up to 300000 x 300000 cells (only the two axes exist) probed around 2**31, 2**32, the ends and at random against Python's exact integers. CF units in all six spellings, longitude stored before latitude, coordinate_names in any key order.",
        "note": "Trusts numpy for nothing: the oracle is divmod arithmetic on the spec. Assumes generated datasets are valid instances of their convention.",
        "design": "5/C01",
    },
    "C02": {
        "technique": "property-based testing: injective data codes decoded against the spec; polygons/centres vs reference cells; STRtree hits vs brute-force scan",
        "text": "Generated datasets of every convention (non-square, skewed, holes before valid cells, bow-tie mesh faces, variables with grid dimensions in any position, CF-decoded or raw). For every variable and every position n, element n of the flattened variable and the value selected through selector_for_index(wind_index(n)) are both compared with the value the spec stores at the reference native index; polygons, mask and face centres at n are compared with the reference geometry of that cell; spatial-index hits are compared with a brute-force scan. Exploration over bounded sizes (<= 36 cells). Grid dimensions may carry integer dimension coordinates whose labels are not the positions, stored 2-D bounds may have a layout that must be refused, and the documented select_index route is compared as well. Datasets are also held as dask chunks or as a lazily opened netCDF file, geometry may be single precision. Column-major coordinate / data arrays, transposed cell-centre longitude on C grids.",
        "note": "Assumes valid datasets. For 2-D CF grids without stored bounds only hole/centre consistency is asserted for polygons.",
        "design": "5/C02",
    },
    "C03": {
        "technique": "property-based testing: round trip ravel/wind with explicit per-element gather oracle; arbitrary linear data with coinciding dimension sizes",
        "text": "Every variable of generated datasets (0-3 extra dimensions in any permutation) is flattened with default/custom linear dimension names and wound back by position, axis number (positive/negative) and name; arbitrary int/float/bool/datetime linear data with the linear dimension anywhere, and other dimensions sized exactly like the grid so that a wrong axis reshapes silently, is wound on every grid kind and flattened again. Oracle is an element-by-element gather, never reshape. Variables on no grid must be refused. Arrays may carry the name of a dataset variable that lives on another grid kind: the grid is decided by the dimensions alone.",
        "note": "A linear dimension name colliding with a kept dimension may be refused; silent corruption is the violation (this was a genuine defect, fixed in 9b04c93).",
        "design": "5/C03",
    },
    "C04": {
        "technique": "property-based testing: exact rational point-in-polygon oracle + brute-force scan, points derived from the case geometry",
        "text": "For generated datasets (holes, skewed cells, concave / self-intersecting / overlapping mesh faces, > 10 cells so the STRtree has several leaves) 12-40 points per case at vertices, edge midpoints, interiors, hole interiors, a hair outside the hull and far away are looked up; the hit set comes from exact Fraction arithmetic on the spec's corners (cross-checked against polygon.intersects over all polygons) and the lookup must return its minimum, with matching native index and polygon, None on a miss, never a hole; select_point must raise exactly on misses and equal select_index otherwise. A history option converts indexes on every other grid kind first (meshes with as many nodes as faces are generated on purpose). Dimensions named index / point that only a coordinate uses.",
        "note": "Coordinates are dyadic so exact arithmetic on the float values is ground truth. select_point vs select_index compared only when a face variable exists.",
        "design": "5/C04",
    },
    "C05": {
        "technique": "property-based testing: selected values decoded against the spec; hit/miss classification from the exact containment oracle",
        "text": "Index lists with repeats in any order on every grid kind, custom dimension names, single-index selection; point lists mixing interior hits, boundary hits and misses under error/drop/fill through select_points and extract_dataframe with extra columns. Every value of every returned variable is compared with the spec's stored value for the requested cell in request order; variable set, geometry removal, miss reporting, row labels, fill rows and data-frame columns are all checked. Variables include per-cell time stamps (datetime64, NaT), grid dimensions may carry non-positional dimension coordinates. A sub-check selects by edge index on meshes whose edge grid exists without an edge-node table. A history clause replaces, adds and deletes variables in place between two selections on one dataset object.",
        "note": "Assumes at least one hit for drop/fill and at least one variable on the selected grid; custom dimension names do not collide with dataset dimensions.",
        "design": "5/C05",
    },
    "C06": {
        "technique": "property-based testing: exact comparison of polygon rings with reference cells computed from the spec; warnings inspected; bounds exact, geometry vs union",
        "text": "All coordinate classes per convention (ascending/descending/non-uniform axes, bounds absent/contiguous off-midpoint/with gaps and in either row order, skewed 2-D grids with and without bounds, holes, twisted cells, node grids with masked regions, meshes 0/1-based with NaN/integer fill, transposed tables, bow-tie faces, coordinates as coordinates or plain variables; raw, CF-decoded and through netCDF). Each polygon ring must equal the reference corner sequence exactly, missing/invalid cells must be None with mask False and an InvalidPolygonWarning naming them, the array read-only, bounds exact and geometry equal to the union of the cells. After the reads every dataset variable must be bit-identical to what it was and a second convention object on the same dataset must report the same polygons. Cells may overlap (1-D bounds, mesh faces): the geometry must be a valid shape equal to their union. Unsigned connectivity tables, column-major geometry arrays.",
        "note": "2-D CF grids without stored bounds: validity only (the statements define no construction). Bounds and geometry are asserted against the valid reference cells in every case (also with dropped cells and mesh nodes that no face uses).",
        "design": "5/C06",
    },
    "C07": {
        "technique": "property-based testing with brute-force reference masks; exhaustive enumeration of all boolean arrays up to 4x4 for the mask primitives; metamorphic monotonicity",
        "text": "make_clip_mask on generated datasets of every convention with clip geometries built from the case's own cells (own polygon, boxes, a box inside one cell, corner-only contact, border-hugging strips, points, lines, multi-part unions) and buffers 0..3 is compared with a brute-force base set grown by a brute-force Chebyshev dilation (grids), the incidence definition (left/back/node masks) or node-sharing rings (meshes), with contiguous renumbering in original order for faces, edges and nodes; growing the buffer or the geometry must never unmark. blur_mask / smear_mask / c_mask_from_centres are enumerated over every boolean array up to 4x4 (exhaustive in the thorough tier), buffer_faces / mask_from_face_indexes over every face subset of generated meshes with <= 8 faces.",
        "note": "Base-set membership uses shapely's intersects on each polygon (no tree). Supplied face_edge / edge_face tables imply a supplied edge_node table (UGRID conventions).",
        "design": "5/C07",
    },
    "C08": {
        "technique": "property-based testing: every value of the clipped dataset compared with a reference computed from the spec and a reference selection; three application routes incl. saved-and-reloaded mask applied to a second dataset",
        "text": "For generated datasets of every convention with float / int-without-fill / int-with-_FillValue / int-with-missing_value variables on every grid kind (and none), spatial dimensions in any position, raw / CF-decoded / from netCDF, meshes with any subset of optional tables and coordinates as variables or xarray coordinates: the result of clip / make+apply / saved mask applied to a second dataset with different data is loaded fully and every element is compared with the expectation (selected -> original value, unselected -> missing where representable else original, crop window = bounding window of the reference mask, mesh rows = kept elements in order), plus non-spatial variables and attributes. Routes include applying the same mask object twice; the caller's mask dataset must be bit-identical afterwards. Routes include clipping the same dataset object twice with another buffer first.",
        "note": "Reference selection comes from the C07 oracles, not from emsarray's mask. Lazily loaded results are evaluated with a single-threaded dask scheduler (emsarray opens them with lock=False).",
        "design": "5/C08",
    },
    "C09": {
        "technique": "property-based testing: convention re-detection, save/reopen round trip, polygon equality under the reference position mapping, mesh tables vs reference mesh model under reference renumbering, netCDF4 inspection of on-disk dtype / start_index / index range",
        "text": "Same case space as C08. The clipped dataset must be detected as the input's convention, be savable through ems.to_netcdf and reopen as that convention with the same polygons; where geometry is stored explicitly every selected cell keeps exactly its polygon and no new polygon appears; for meshes every supplied connectivity table must survive, equal the reference table pushed through the reference renumbering, stay inside the new index range, and keep start_index and integer type on disk. select_variables on random subsets must keep every geometry variable and all polygons. A sub-check clips meshes that have a face-edge table and a declared edge dimension but nothing stored along it.",
        "note": "Geometry equality only where stored explicitly (bounds / nodes). A CF 1-D grid without bounds cropped to a one-cell-wide window has no derivable geometry; only detection is asserted there.",
        "design": "5/C09",
    },
    "C10": {
        "technique": "property-based testing: the same abstract mesh encoded twice with independently drawn encodings, every normalised table compared with a reference mesh model; supplied tables carry a random edge numbering that no derivation reproduces",
        "text": "Abstract meshes (3-8 node faces incl. 5- and 7-gons, interior and boundary edges, shuffled numbering, random winding) are encoded twice over the full product of index base, fill representation, integer width, transposition, supplied-table subset, declared/implied dimensions, coordinates as variables or xarray coordinates, padding column and raw/decoded/netCDF. face_node, counts, dimension names and polygons must equal the model for both; supplied edge_node / face_edge / edge_face / face_face must come back exactly as supplied; derived tables must satisfy the defining relations (edges = distinct consecutive node pairs, face's c-th edge joins nodes c and c+1, edge lists exactly its faces, adjacency symmetric = shares an edge). String start_index '0'/'1' must warn, anything else must be refused. Every subset of optional tables is drawn, also edge tables without the edge-node table (supplied tables are compared in the file's numbering, derived ones against the reported tables); boundary rows of a supplied edge-face table carry the fill in either column. A sub-check uses strips of 100-260 faces in int16 / int32 tables.",
        "note": "face_edge / edge_face supplied only together with edge_node; derived edge tables asserted only when an edge dimension exists.",
        "design": "5/C10",
    },
    "C11": {
        "technique": "property-based testing: table-driven restatement of the detection rules as oracle; generated registration orders in a fresh registry; model-based operation sequences (histories) over live datasets",
        "text": "Datasets of every convention and 13 kinds of near-miss are detected and compared with an independent restatement of the documented rules (also repeatability, deep copies, activity on another registry); 0-4 synthetic conventions with drawn specificities (ties with each other and the built-ins, duplicates) are registered one at a time in a fresh registry with detection asked after every registration; operation sequences of up to 30 steps from {access, construct+bind, bind again, shallow/deep copy, detect} over up to 6 live datasets are run against a model, with the invariant after every step that each bound dataset still returns the identical convention object, unbound copies stay unbound, and a second bind raises. Built-in classes are also registered by hand, interleaved with synthetic ones. The UGRID marker is spelled alone or next to CF, separated by blank, comma or slash. Near misses include rotated-pole index coordinates and a single SHOC dimension name.",
        "note": "Generic ArakawaC never auto-detects (documented). Built-ins do not tie with each other on generated datasets.",
        "design": "5/C11",
    },
    "C12": {
        "technique": "property-based testing: per-element comparison with a physical-depth reference model computed from the spec",
        "text": "Datasets of every convention with 1-2 depth coordinates on different dimensions (positive up/down, stored in either order), a generated static sea floor giving columns 0..all wet layers per (depth coordinate, grid kind), 2-4 float variables with the depth dimension in any position on any grid kind with optional time and nuisance dimensions, through operations.depth.ocean_floor and dataset.ems.ocean_floor(). Every element of every reduced variable must equal the spec's value at the wet level of greatest physical depth (NaN for all-dry columns); depth dimension and coordinates must be gone; other variables, time, geometry variables and polygons must be unchanged. Depth coordinates may lack the positive attribute (one-sided values, documented guess), names may be handed over as any iterable, data may be dask-backed or lazily read from a file. A plain layer-number coordinate on the depth dimension must be gone afterwards.",
        "note": "Static-floor assumption as documented by ocean_floor; the order of the remaining dimensions is not asserted; accessor route only with a time coordinate.",
        "design": "5/C12",
    },
    "C13": {
        "technique": "property-based testing: invariants over physical depth (multiset preserved, requested sign and order, bounds and data follow), idempotence, input immutability via deep snapshot",
        "text": "Depth coordinates with/without positive attribute, with/without bounds, dimension or auxiliary coordinate, coordinate or plain variable, in datasets of every convention with float/int variables whose depth dimension sits anywhere; all 9 option combinations; one call, repeated calls, and the two options in two separate calls in either order; function and accessor. After the call the attribute equals the request, the physical depths are the same multiset in the requested order, each bounds row is the transformed row of the same level and brackets it, every data value is still attached to its physical depth, unset options change nothing, a further application is identical, and the input dataset is identical to a deep snapshot taken before. Two coordinates may share one dimension. Depth names are handed over as list, tuple, iterator, generator, dict keys or data arrays.",
        "note": "Missing positive attribute: the documented guess (majority of values > 0 => down) is the reference, and the documented warning is required.",
        "design": "5/C13",
    },
    "C14": {
        "technique": "property-based testing with a validity-predicate oracle (many triangulations are correct): counts, own vertices, containment, area sum and union area per cell",
        "text": "Datasets of every convention with holes, plus meshes built to contain convex faces, concave polyomino faces with exactly collinear vertices (unjittered lattice), star-shaped concave faces with 4-8 vertices at random radii, 5- and 7-gons, bow-tie faces, clockwise and anticlockwise winding and every ring rotation. For every cell: exactly n-2 triangles (n = distinct consecutive corners), every triangle vertex is a vertex of that cell, every triangle lies inside the cell, areas sum to the cell's area and the union has the cell's area (no overlap, no gap); no triangles for cells without geometry; all indexes valid; no duplicate vertex rows. Every case triangulates twice with the first result's arrays overwritten in between; sub-check sparse_large_grids covers grids of 169-624 cells with geometry only in a small window. Further sub-checks: shared corners stored as 0.0 and -0.0, cell sides down to 1e-6. Seams (coincident nodes) and thin polygons with one deep notch.",
        "note": "Relative area tolerance 1e-9. A corner listed twice in a row counts once.",
        "design": "5/C14",
    },
    "C15": {
        "technique": "property-based testing: round trip through independent readers (json, pyshp Reader, shapely.from_wkt/from_wkb) with exact coordinate comparison",
        "text": "Datasets of every convention (holes anywhere incl. the first cell, bow-tie faces, native indexes with and without grid kind, coordinates with up to 10 binary decimals) are exported as GeoJSON, Shapefile, WKT and WKB through operations.geometry.write_*; the files are read back with independent readers; the k-th geometry must be the polygon of the k-th cell with geometry with identical coordinates, and GeoJSON properties / shapefile records must carry the linear index and a native index that ravel_index maps back to that cell. Further sub-checks move the coordinates east of 180 and beyond +-90 (polar rows, projected coordinates). A sub-check exports grids of 768-1536 cells with bands of missing cells.",
        "note": "Rings compared up to start vertex and direction. Coordinates compared exactly.",
        "design": "5/C15",
    },
    "C16": {
        "technique": "property-based testing with metamorphic relations (invariance / sensitivity under single edits derived from one dataset), fresh-interpreter differential over hash seeds, known-finding matcher",
        "text": "All variants are derived from one built dataset so attribute objects are shared: 7 kinds of non-geometry edit must leave the key unchanged, single geometry edits (one value, dtype with equal values, dtype with identical bytes, shape with identical bytes, consistent rename, attribute add/change/remove, convention class differing only in name or only in module) must change it; the same netCDF files opened in fresh interpreters with PYTHONHASHSEED 0, 1 and random must give the parent's keys; equal attribute dicts rebuilt from fresh string objects must give the same key (fails: listed known finding, matched exactly). A history clause edits a geometry value and attribute in place on one dataset object between two key computations. Attribute edits include names starting with an underscore; datasets are also CF-decoded, dask-backed or lazily opened. Names differing only in unicode normal form; mesh attributes naming absent tables.",
        "note": "Known finding KF-cache-key-attribute-identity (marshal of attributes depends on object identity / reference counts) is reported as KNOWN-FINDING and excluded from the search by a matcher that re-derives it; process independence is explored on this machine and Python version only.",
        "design": "5/C16",
    },
    "C17": {
        "technique": "property-based testing: reference instant computed from generated components + independent regex parser of the EMS form; exhaustive offset x spelling x period grid; netCDF round trip inspected with xarray and netCDF4",
        "text": "format_time_units_for_ems on generated unit strings (4 periods, epochs 1700-2200 at any time of day, offsets on every quarter hour from -12:00 to +14:00 plus Z and none, 'T' or space, with or without seconds, +HH:MM / +HHMM / +HH, optional space, 4 calendars) must return the EMS form denoting the same instant (also according to cftime) - an exception is a violation; the full offsets x spellings x periods grid is enumerated. Datasets of every convention with such time units and integer or fractional steps are saved through ems.to_netcdf / to_netcdf_with_fixes and reopened: same convention, identical polygons, values and time instants, EMS-form units in the file, no new _FillValue attributes. One class re-times the decoded series by a fraction of its unit while it keeps an integer encoding, so that the writer must choose a finer unit. Sources are also held undecoded as on disk (compared through the decoding that reopening applies), with a sub-check for in-memory meshes with integer tables. Epochs from the year 1000 in the formatting sub-check.",
        "note": "Input offsets use two-digit hours, Z or nothing (cftime ignores one-digit-hour offsets).",
        "design": "5/C17",
    },
    "C18": {
        "technique": "property-based testing: exact rational clipping of the path against every cell (independent of GEOS) as length oracle; order and index invariants; data decoded against the spec",
        "text": "Datasets of every convention (holes, skewed cells, concave mesh faces) with a depth coordinate x simple polylines of 2-6 vertices built from cell vertices, edge points, interiors, hole interiors and points outside the model. Per cell the segments naming it must lie in the cell and on the path, not overlap, and have total length equal to the exactly computed length of the path inside that cell (zero for untouched cells and holes); indexes and polygon must agree with R-index; start <= end, the list sorted by start distance, distance monotone in the path parameter; transect_dataset and prepare_data_array_for_transect must list exactly the segments' cells and carry the spec's values at every depth (and time). After each variable a second array with the same name, dimensions and shape is prepared on the same transect. Reported distances are compared with pyproj's geodesic solver (1e-6 relative + 1 cm); one model in four lies east of 180 degrees.",
        "note": "cfunits is stubbed; cartopy's Geodetic CRS stands in for PlateCarree as data_crs because this sandbox's cartopy 0.25 / PROJ 9.8 pair distorts PlateCarree latitudes (DESIGN.md section 9).",
        "design": "5/C18",
    },
    "C19": {
        "technique": "property-based testing: artist internals (paths, array, clim, stored transform, quiver X/Y/U/V/Umask) compared with the spec",
        "text": "Datasets of every convention with holes before valid cells, bow-tie faces and meshes mixing 3-8 sided faces; face variables with grid dimensions in any order, missing values, optional extra dimension; scalar by name, as DataArray or absent; array= / clim= / transform= / extra keyword overrides; vector pairs. Patch k must trace the k-th cell with geometry exactly and carry its stored value, default clim must span exactly the plotted values, overrides must be honoured, arrows must sit at face_centres[n] with the stored (u, v) (hidden iff a component is missing), and data+array=, leftover dimensions or mismatched vector dimensions must be refused. Axes may be stored as float32 / int32 where exact; arrow positions are compared with the centres the dataset stores; derived arrays carrying a variable's name must be plotted with their own values. Self-crossing cells after holes; the set of cells with geometry comes from the reference cells.",
        "note": "Artists are inspected without drawing; Agg backend.",
        "design": "5/C19",
    },
    "C20": {
        "technique": "property-based testing: independent hand-written parser of the bounds grammar as oracle incl. near-miss strings; differential comparison of CLI output files with library results; failure-path invariants; subprocess sample",
        "text": "bounds_argument / geometry_argument on grammar-generated strings (minus, 1 / 1. / .5 / 1.5, underscores, spaces around commas, Unicode digits) and 21 kinds of near-miss must accept exactly what an independent split-and-recognise parser accepts, with the same four numbers; GeoJSON strings and files valid and invalid. clip (bounds, GeoJSON string, GeoJSON file), extract-points (hits and misses x error/drop/fill/default x custom columns and dimension) and export-geometry (explicit or guessed format) run in process on datasets of every auto-detectable convention and are compared with the files the library calls produce (xarray identical + raw units; byte equality for exports); failures must exit non-zero with a message and leave no output file; a sample runs as python -m emsarray. An explicit export format is combined with neutral, missing and contradicting extensions. Point tables may repeat a row. A clip file name reused with new content in the same process; output names with further dots.",
        "note": "Whitespace before the first / after the last number is not asserted either way.",
        "design": "5/C20",
    },
}

NOT_BUILT_REASON = "check not built yet in this session (work in progress; planned in DESIGN.md section 5)"


def main():
    checks = []
    for pid in ALL:
        if pid not in CHECKS:
            continue
        c = CHECKS[pid]
        checks.append({
            "property_id": pid,
            "quick_cmd": f"./check.py {pid} --tier quick",
            "thorough_cmd": f"./check.py {pid} --tier thorough",
            "evidence_file": f"evidence/{pid}.json",
            "replay_cmd_template": f"./check.py {pid} --replay {{path}}",
            "engine": "hypothesis",
            "level_claimed": {"category": "exploration", "text": c["text"],
                              "design_ref": c["design"]},
            "level_note": c["note"],
            "technique": c["technique"],
        })
    manifest = {
        "version": 1,
        "setup_cmd": "./setup.sh",
        "hooks": {
            "guard": "EMSARRAY_VERIF",
            "enable": "none needed: emsarray is pure Python and every observation point is public API; checks import the working tree from $VERIF_REPO/src (default /repo/src) in a fresh interpreter",
            "baseline_off_cmd": "env -u EMSARRAY_VERIF /venv/bin/python tools/baseline.py",
            "source_commits": [],
            "add_only": True,
        },
        "engines": [
            {"name": "hypothesis", "path": "vf/runner.py",
             "serves_properties": [c["property_id"] for c in checks],
             "kind_free_text": "Hypothesis 6.168 strategies over JSON case specs + explicit reference models; finite enumerations sharded over processes"},
        ],
        "checks": checks,
        "not_applicable": [
            {"property_id": pid, "reason": NOT_BUILT_REASON} for pid in ALL if pid not in CHECKS
        ],
        "notes": "Every check: ./check.py <ID> --tier quick|thorough; VERIF_SEED honoured; exit 0/1/2 = held / VIOLATION / harness error. Known findings: known_findings.json (read-only at run time).",
    }
    with open(os.path.join(HERE, "MANIFEST.json"), "w") as f:
        json.dump(manifest, f, indent=1)
    try:
        import sys
        sys.path.append(os.path.join(HERE, ".deps"))
        import jsonschema
        jsonschema.validate(manifest, json.load(open("/root/.vp/MANIFEST.schema.json")))
        print("MANIFEST.json valid;", len(checks), "checks")
    except ImportError:
        print("MANIFEST.json written (jsonschema not available)")


if __name__ == "__main__":
    main()
