#!/usr/bin/env python3
"""Generate /verif/MANIFEST.json from the table below (kept in one place so it stays valid)."""
import json
import os

HERE = os.path.dirname(os.path.dirname(os.path.abspath(__file__)))

ALL = [f"C{n:02d}" for n in range(1, 21)]

CHECKS = {
    "C01": {
        "technique": "property-based testing: exhaustive index sweep inside generated datasets vs a divmod reference model; finite enumeration of all shapes",
        "text": "Hypothesis generates datasets of every convention (non-square, 1xN, Nx1, holes, meshes with and without an edge dimension); inside each, every linear index in [-3, N+3) and every native index in the box [-1..n_d] of every grid kind is converted both ways and compared with an independent row-major model, and out-of-range indexes must raise. All structured shapes up to 5x5 and strip meshes up to 12 faces are enumerated completely. Exploration, not proof: shapes are bounded (<= 6 per axis).",
        "note": "Trusts numpy for nothing: the oracle is divmod arithmetic on the spec. Assumes generated datasets are valid instances of their convention.",
        "design": "5/C01",
    },
}

NOT_BUILT_REASON = "check not built yet in this session (work in progress; planned in DESIGN.md section 5)"


def main():
    checks = []
    for pid in ALL:
        if pid not in CHECKS:
            continue
        c = CHECKS[pid]
        checks.append({
            "property_id": pid,
            "quick_cmd": f"./check.py {pid} --tier quick",
            "thorough_cmd": f"./check.py {pid} --tier thorough",
            "evidence_file": f"evidence/{pid}.json",
            "replay_cmd_template": f"./check.py {pid} --replay {{path}}",
            "engine": "hypothesis",
            "level_claimed": {"category": "exploration", "text": c["text"],
                              "design_ref": c["design"]},
            "level_note": c["note"],
            "technique": c["technique"],
        })
    manifest = {
        "version": 1,
        "setup_cmd": "./setup.sh",
        "hooks": {
            "guard": "EMSARRAY_VERIF",
            "enable": "none needed: emsarray is pure Python and every observation point is public API; checks import the working tree from $VERIF_REPO/src (default /repo/src) in a fresh interpreter",
            "baseline_off_cmd": "env -u EMSARRAY_VERIF /venv/bin/python tools/baseline.py",
            "source_commits": [],
            "add_only": True,
        },
        "engines": [
            {"name": "hypothesis", "path": "vf/runner.py",
             "serves_properties": [c["property_id"] for c in checks],
             "kind_free_text": "Hypothesis 6.168 strategies over JSON case specs + explicit reference models; finite enumerations sharded over processes"},
        ],
        "checks": checks,
        "not_applicable": [
            {"property_id": pid, "reason": NOT_BUILT_REASON} for pid in ALL if pid not in CHECKS
        ],
        "notes": "Every check: ./check.py <ID> --tier quick|thorough; VERIF_SEED honoured; exit 0/1/2 = held / VIOLATION / harness error. Known findings: known_findings.json (read-only at run time).",
    }
    with open(os.path.join(HERE, "MANIFEST.json"), "w") as f:
        json.dump(manifest, f, indent=1)
    try:
        import sys
        sys.path.append(os.path.join(HERE, ".deps"))
        import jsonschema
        jsonschema.validate(manifest, json.load(open("/root/.vp/MANIFEST.schema.json")))
        print("MANIFEST.json valid;", len(checks), "checks")
    except ImportError:
        print("MANIFEST.json written (jsonschema not available)")


if __name__ == "__main__":
    main()
