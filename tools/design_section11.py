#!/usr/bin/env python3
"""
Regenerate section 11 of DESIGN.md (sensitivity) from the template tools/sec11_template.md, the
sub-check tables of the property modules and the last results in sensitivity/*.txt.

    /venv/bin/python tools/design_section11.py
"""
import collections
import importlib
import json
import os
import re
import sys

HERE = os.path.dirname(os.path.dirname(os.path.abspath(__file__)))
sys.path.insert(0, HERE)
sys.path.insert(0, os.path.join(HERE, ".deps"))


def as_built():
    rows = ["| Property | Sub-checks (quick / thorough examples per shard; quick = 4 shards, "
            "thorough = 16) | Enumerations |", "|---|---|---|"]
    for n in range(1, 21):
        mod = importlib.import_module(f"vf.props.c{n:02d}")
        subs = "; ".join(f"`{s.name}` {s.quick}/{s.thorough}" for s in getattr(mod, "SUBS", []))
        enums = "; ".join(f"`{e.name}` (complete in: {', '.join(e.exhaustive_in)})"
                          for e in getattr(mod, "ENUMS", [])) or "-"
        rows.append(f"| C{n:02d} | {subs} | {enums} |")
    return "\n".join(rows) + "\n"


def seed_table():
    res = {}
    for line in open(os.path.join(HERE, "sensitivity", "seeded_results.txt")):
        m = re.match(r"(\S+)\s+(\S+)\s+(C\d\d)\s+([\d.]+)s\s*(.*)", line)
        if m:
            res.setdefault(m.group(2), []).append((m.group(3), m.group(1), m.group(5)))
    rows = ["| Seeded change | Needs to manifest | Caught by (first failing clause) |", "|---|---|---|"]
    for name in sorted(os.listdir(os.path.join(HERE, "seeded"))):
        meta = json.load(open(os.path.join(HERE, "seeded", name, "meta.json")))
        needs = meta.get("needs_to_manifest", "").replace("|", "/")
        caught = "; ".join((re.sub(r"^clause ", "", c).split(":")[0]) if v == "KILLED" else f"{p}: {v}"
                           for p, v, c in res.get(name, []))
        rows.append(f"| {name} | {needs} | {caught} |")
    return "\n".join(rows)


def mutant_table():
    mut = collections.OrderedDict()
    for line in open(os.path.join(HERE, "sensitivity", "mutants_results.txt")):
        m = re.match(r"(\S+)\s+(\S+)\s+(C\d\d)\s+([\d.]+)s", line)
        if m:
            mut.setdefault(m.group(3), []).append((m.group(2), m.group(1)))
    rows = ["| Check | Mutants run against it | Killed |", "|---|---|---|"]
    total = killed = 0
    for p in sorted(mut):
        n = len(mut[p])
        k = sum(1 for _, v in mut[p] if v == "KILLED")
        total += n
        killed += k
        rows.append(f"| {p} | {n}: " + ", ".join(i for i, _ in mut[p]) + f" | {k} |")
    rows.append(f"| all | {total} | {killed} |")
    return "\n".join(rows)


def main():
    template = open(os.path.join(HERE, "tools", "sec11_template.md")).read()
    text = (template.replace("@@ASBUILT@@", as_built()).replace("@@MUTANTS@@", mutant_table())
            .replace("@@SEEDS@@", seed_table()))
    path = os.path.join(HERE, "DESIGN.md")
    s = open(path).read()
    marker = "## Appendix — probe log"
    if "## 11. Sensitivity" in s:
        s = s[:s.index("## 11. Sensitivity")] + s[s.index(marker):]
    s = s.replace(marker, text + marker)
    open(path, "w").write(s)


if __name__ == "__main__":
    main()
