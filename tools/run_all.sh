#!/bin/sh
# Run every check of the manifest at the given tier and seeds; report anything that is not exit 0.
#   tools/run_all.sh quick "1 2 3"
cd "$(dirname "$0")/.."
TIER=${1:-quick}
SEEDS=${2:-1}
bad=0
for seed in $SEEDS; do
  for n in 01 02 03 04 05 06 07 08 09 10 11 12 13 14 15 16 17 18 19 20; do
    out=$(VERIF_SEED=$seed timeout 7200 ./check.py C$n --tier $TIER 2>&1)
    code=$?
    line=$(echo "$out" | grep "^C$n " | tail -1)
    echo "seed=$seed exit=$code $line"
    if [ $code -ne 0 ]; then bad=1; echo "$out" | tail -5 | cut -c1-600; fi
  done
done
exit $bad
