#!/usr/bin/env python3
"""
Confirm a seeded change produced by an independent sub-agent, then file it under seeded/<name>/.

    tools/confirm_seed.py <out-dir> <name> <property> [--checks C01,C02]

Steps (all in a fresh scratch worktree of /repo HEAD, removed afterwards):
  1. the patch applies;  2. the demonstration passes WITHOUT the patch;
  3. it fails WITH the patch;  4. the pinned test baseline is intact WITH the patch.
Only then are patch.diff, demo.py, notes.md and meta.json written to seeded/<name>/.
"""
import argparse
import json
import os
import shutil
import subprocess
import sys
import tempfile

HERE = os.path.dirname(os.path.dirname(os.path.abspath(__file__)))


def sh(cmd, **kw):
    return subprocess.run(cmd, stdout=subprocess.PIPE, stderr=subprocess.STDOUT, text=True, **kw)


def main():
    parser = argparse.ArgumentParser()
    parser.add_argument("out_dir")
    parser.add_argument("name")
    parser.add_argument("property")
    parser.add_argument("--checks", default="")
    parser.add_argument("--needs", default="")
    options = parser.parse_args()
    out = options.out_dir
    for f in ("patch.diff", "demo.py"):
        if not os.path.exists(os.path.join(out, f)):
            print("missing", f)
            return 1
    tmp = tempfile.mkdtemp(prefix="confirm-", dir="/tmp")
    wt = os.path.join(tmp, "wt")
    ran = []
    try:
        r = sh(["git", "-C", "/repo", "worktree", "add", "-q", "--detach", wt, "HEAD"])
        assert r.returncode == 0, r.stdout
        env = dict(os.environ, PYTHONPATH=os.path.join(wt, "src"))
        demo_src = open(os.path.join(out, "demo.py")).read()
        # the demo may mention the agent's worktree path; point it at ours
        import re
        demo_src = re.sub(r"/tmp/seed[23456]?/C\d\d(?!-out)", wt, demo_src)
        demo = os.path.join(tmp, "demo.py")
        open(demo, "w").write(demo_src)

        r = sh(["/venv/bin/python", demo], env=env, cwd=wt)
        ran.append(f"demo without patch: exit {r.returncode}")
        if r.returncode != 0:
            print("demo FAILS on the unmodified tree:\n", r.stdout[-1500:])
            return 1
        r = sh(["git", "-C", wt, "apply", os.path.join(out, "patch.diff")])
        if r.returncode != 0:
            print("patch does not apply:", r.stdout)
            return 1
        r = sh(["/venv/bin/python", demo], env=env, cwd=wt)
        ran.append(f"demo with patch: exit {r.returncode}")
        if r.returncode == 0:
            print("demo PASSES on the modified tree")
            return 1
        demo_tail = r.stdout[-600:]
        r = sh(["/venv/bin/python", os.path.join(HERE, "tools", "baseline.py"), "-n"],
               env=dict(os.environ, VERIF_REPO=wt))
        ran.append(f"baseline with patch: exit {r.returncode} ({r.stdout.strip().splitlines()[-1]})")
        if r.returncode != 0:
            print("baseline broken by the patch:\n", r.stdout[-1500:])
            return 1
    finally:
        sh(["git", "-C", "/repo", "worktree", "remove", "--force", wt])
        shutil.rmtree(tmp, ignore_errors=True)

    dest = os.path.join(HERE, "seeded", options.name)
    os.makedirs(dest, exist_ok=True)
    for f in ("patch.diff", "demo.py", "notes.md"):
        if os.path.exists(os.path.join(out, f)):
            shutil.copy(os.path.join(out, f), os.path.join(dest, f))
    meta = {
        "property": options.property,
        "checks": [c for c in options.checks.split(",") if c] or [options.property],
        "needs_to_manifest": options.needs,
        "confirmed": ran,
        "demo_failure_tail": demo_tail,
        "source": "independent sub-agent given only the property text and a scratch worktree",
    }
    json.dump(meta, open(os.path.join(dest, "meta.json"), "w"), indent=1)
    print("confirmed:", "; ".join(ran))
    return 0


if __name__ == "__main__":
    sys.exit(main())
