#!/usr/bin/env python3
"""
Sensitivity suite: is each check able to fail?

Mutants are small source substitutions (mutants/table.py) applied to a scratch copy of the tree
under test; the owning check is run against the copy with VERIF_REPO and must exit 1.  Patch-based
seeded changes from independent sub-agents (seeded/<id>/patch.diff) are run the same way.

    tools/mutants.py list
    tools/mutants.py run [-k SUBSTR] [--tier quick]   # all matching mutants
    tools/mutants.py seeded [-k SUBSTR]
"""
import argparse
import importlib.util
import json
import os
import shutil
import subprocess
import sys
import tempfile
import time
from concurrent.futures import ThreadPoolExecutor

HERE = os.path.dirname(os.path.dirname(os.path.abspath(__file__)))
REPO = os.environ.get("VERIF_REPO", "/repo")


def load_table():
    path = os.path.join(HERE, "mutants", "table.py")
    spec = importlib.util.spec_from_file_location("mutant_table", path)
    mod = importlib.util.module_from_spec(spec)
    spec.loader.exec_module(mod)
    return mod.MUTANTS


def scratch_copy():
    base = "/dev/shm" if os.path.isdir("/dev/shm") else None
    tmp = tempfile.mkdtemp(prefix="vf-mut-", dir=base)
    shutil.copytree(os.path.join(REPO, "src"), os.path.join(tmp, "src"),
                    ignore=shutil.ignore_patterns("__pycache__", "*.egg-info"))
    return tmp


def run_check(tree, prop, tier, seed="1", scale=None):
    out_dir = os.path.join(tree, "out")
    os.makedirs(out_dir, exist_ok=True)
    env = dict(os.environ, VERIF_REPO=tree, VERIF_EVIDENCE_DIR=out_dir,
               VERIF_NEW_REPLAY_DIR=out_dir, VERIF_SEED=seed)
    if scale:
        env["VERIF_SCALE"] = scale
    t0 = time.time()
    proc = subprocess.run([os.path.join(HERE, "check.py"), prop, "--tier", tier],
                          cwd=HERE, env=env, stdout=subprocess.PIPE, stderr=subprocess.STDOUT,
                          text=True)
    return proc.returncode, proc.stdout, time.time() - t0


def apply_substitution(tree, mutant):
    path = os.path.join(tree, "src", "emsarray", mutant["file"])
    text = open(path).read()
    count = text.count(mutant["old"])
    if count != mutant.get("count", 1):
        raise LookupError(f"mutant {mutant['id']}: pattern occurs {count} times in {mutant['file']}")
    text = text.replace(mutant["old"], mutant["new"])
    open(path, "w").write(text)


def run_mutant(mutant, tier):
    rows = []
    tree = scratch_copy()
    try:
        try:
            apply_substitution(tree, mutant)
        except LookupError as exc:
            return [(mutant["id"], ",".join(mutant["props"]), "stale-pattern", 0, str(exc))]
        for prop in mutant["props"]:
            code, out, wall = run_check(tree, prop, tier)
            clause = ""
            for line in out.splitlines():
                if line.startswith("clause "):
                    clause = line[:150]
            rows.append((mutant["id"], prop, code, round(wall, 1), clause))
    finally:
        shutil.rmtree(tree, ignore_errors=True)
    return rows


def run_seeded(name, tier):
    d = os.path.join(HERE, "seeded", name)
    meta = json.load(open(os.path.join(d, "meta.json")))
    tree = scratch_copy()
    rows = []
    try:
        proc = subprocess.run(["patch", "-p1", "-d", tree, "-i", os.path.join(d, "patch.diff")],
                              stdout=subprocess.PIPE, stderr=subprocess.STDOUT, text=True)
        if proc.returncode != 0:
            return [(name, meta["property"], "patch-failed", 0, proc.stdout[-200:])]
        for prop in meta.get("checks", [meta["property"]]):
            code, out, wall = run_check(tree, prop, tier)
            clause = ""
            for line in out.splitlines():
                if line.startswith("clause "):
                    clause = line[:150]
            rows.append((name, prop, code, round(wall, 1), clause))
    finally:
        shutil.rmtree(tree, ignore_errors=True)
    return rows


def main():
    parser = argparse.ArgumentParser()
    parser.add_argument("cmd", choices=["list", "run", "seeded"])
    parser.add_argument("-k", default="")
    parser.add_argument("--tier", default="quick")
    parser.add_argument("-j", type=int, default=4)
    options = parser.parse_args()
    if options.cmd == "list":
        for m in load_table():
            print(m["id"], m["props"], m["file"])
        return 0
    if options.cmd == "run":
        todo = [m for m in load_table() if options.k in m["id"] or options.k in ",".join(m["props"])]
        with ThreadPoolExecutor(options.j) as pool:
            results = list(pool.map(lambda m: run_mutant(m, options.tier), todo))
    else:
        names = sorted(n for n in os.listdir(os.path.join(HERE, "seeded"))
                       if options.k in n and os.path.isdir(os.path.join(HERE, "seeded", n)))
        with ThreadPoolExecutor(options.j) as pool:
            results = list(pool.map(lambda n: run_seeded(n, options.tier), names))
    survived = 0
    for rows in results:
        for ident, prop, code, wall, clause in rows:
            verdict = {1: "KILLED", 0: "SURVIVED", 2: "HARNESS-ERROR"}.get(code, str(code))
            if code != 1:
                survived += 1
            print(f"{verdict:14s} {ident:40s} {prop} {wall:6.1f}s  {clause}")
    print(f"{survived} not killed")
    return 1 if survived else 0


if __name__ == "__main__":
    sys.exit(main())
