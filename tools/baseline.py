#!/usr/bin/env python3
"""
Run the repository's pinned test suite with the verification guard OFF and compare the result
with /root/.vp/BASELINE.json: every test in ``stable_pass`` must still pass.

Exit 0 when the baseline is intact, 1 otherwise.
"""
import json
import os
import subprocess
import sys
import tempfile
import xml.etree.ElementTree as ET

REPO = os.environ.get("VERIF_REPO", "/repo")
BASELINE = os.environ.get("VERIF_BASELINE", "/root/.vp/BASELINE.json")


def main():
    baseline = json.load(open(BASELINE))
    wanted = set(baseline["stable_pass"])
    env = dict(os.environ)
    env.pop("EMSARRAY_VERIF", None)
    env["PYTHONPATH"] = os.path.join(REPO, "src")   # test the tree named by VERIF_REPO
    with tempfile.TemporaryDirectory() as tmp:
        xml_path = os.path.join(tmp, "junit.xml")
        cmd = ["/venv/bin/python", "-m", "pytest", "-ra", "-q", "-p", "no:cacheprovider",
               "--timeout=900", "--continue-on-collection-errors", f"--junitxml={xml_path}"]
        if "-n" in sys.argv:
            cmd += ["-n", "8"]
        proc = subprocess.run(cmd, cwd=REPO, env=env, stdout=subprocess.PIPE,
                              stderr=subprocess.STDOUT, text=True)
        passed = set()
        root = ET.parse(xml_path).getroot()
        for case in root.iter("testcase"):
            bad = any(child.tag in ("failure", "error", "skipped") for child in case)
            if not bad:
                passed.add(f"{case.get('classname')}::{case.get('name')}")
    missing = sorted(wanted - passed)
    print(f"baseline tests: {len(wanted)}; passing now: {len(wanted & passed)}; "
          f"other passing: {len(passed - wanted)}")
    if missing:
        print("NO LONGER PASSING:")
        for name in missing:
            print("  ", name)
        print(proc.stdout[-4000:])
        return 1
    print("baseline intact")
    return 0


if __name__ == "__main__":
    sys.exit(main())
